"""Setup-time self test: shim works, snaxc imports from the working tree, stub solver behaves."""
import sys

from . import compat  # noqa: F401


def main():
    import snaxc.dialects.accfg  # noqa: F401  (fails without the shim under xDSL 0.70)
    import snaxc.dialects.dart  # noqa: F401
    import snaxc.dialects.snax_stream  # noqa: F401
    from snaxc.tools.snax_opt_main import SNAXOptMain

    m = SNAXOptMain(args=["--allow-unregistered-dialect"])
    assert "accfg-dedup" in m.available_passes
    import minimalloc

    bufs = [minimalloc.Buffer("a", 0, 2, 8, 8), minimalloc.Buffer("b", 1, 3, 8, 8), minimalloc.Buffer("c", 2, 4, 8, 8)]
    offs = minimalloc.Problem(bufs, 64).solve()
    assert offs == [0, 8, 0], offs
    try:
        from . import interp_selftest
    except ImportError:
        interp_selftest = None
    if interp_selftest is not None:
        interp_selftest.main()
    print("selftest ok")


if __name__ == "__main__":
    main()
    sys.exit(0)
