"""Multi-core function recipes: Hypothesis strategies + MLIR builder (C13, C14).

A recipe is JSON. IR is built from it as MLIR text in generic form.

    {"nb_cores": N, "nargs": k, "blocks": [[stmt...], ...], "terms": [term per non-last block], "ret": 0|1|2,
     "vis": "none"|"public"|"private" (visibility of main), "helpers": [{"vis": ..., "body": [stmt...]}] (further functions with a body,
     same leading signature, callable from main through ["callf", k]; build_module() assembles them),
     "inputs": [{"trips": [...], "p": [...], "x": int}, ...]}

Statements (every executed statement carries a unique integer `tag` attribute; the builder records tag -> kind,
so "which core runs this op" is known by construction, independently of snaxc/util/dispatching_rules.py):

  ["alloc"]                          memref.alloc of a 16-element buffer                       (neutral)
  ["view", cls, ref, off]            memref.subview, 4 elements; off = ["c", k] | ["iv", mul]   (neutral)
  ["copy", cls, src, dst]            memref.copy                                               (data mover)
  ["gen", flavor, cls, [ins], out]   flavor 0: linalg.generic with library_call, 1: plain linalg.generic,
                                     2: dart.operation on snax_alu, 3: dart.schedule on snax_gemmx (compute; body without kernel op),
                                     4..14: dart regions with a kernel op in the inner dart.generic, see DART_KERNELS
                                     (compute, or data mover for extension kernels on snax_xdma)
  ["use", cls, ref]                  "test.op"(memref)                                          (neutral)
  ["op", iref]                       "test.op"(index) -> index                                  (neutral)
  ["call", k, iref]                  func.call @ext<k>(index)                                   (neutral)
  ["bar"]                            snax.cluster_sync_op                                      (neutral)
  ["dealloc", k]                     memref.dealloc of the k-th live alloc of the current block (neutral)
  ["for", body]                      scf.for %i = 0 to %n<loop id> step 1 (trip count is a run-time input)
  ["if", cond, then, else]           scf.if; cond = ["p", k] (i1 argument) | ["iv", pred, c] (cmpi on the innermost index value)
  (strategy-only shapes "scoped" = alloc; ops on it; dealloc and "diamond" = producer; scf.if with consumers in either/both
   branches, optional barrier in one branch; consumer after it -- both expand to the statements above)
  ["region", body, mode, body2?]     mode 0 (or absent): neutral "test.op"() ({ body; "test.termop"() }) as in upstream dispatch_regions.mlir;
                                     1 / 2: pipeline.pipeline with one / two pipeline.stage ops (regions WITHOUT terminator, executed once
                                     in order on all cores), wrapped in a one-trip scf.for as the dialect requires
  ["coreid", use]                    pre-existing %id = func.call @snax_cluster_core_idx() (use != 0: followed by tagged "test.op"(%id))

cls is 0 (16-element values: arguments, allocs) or 1 (4-element views). A ref is an int taken modulo the number of
visible values of that class, so every recipe builds valid IR. Buffers are one-dimensional with unit stride, so the
element region of a value is an interval [off, off+size) of its root buffer.
"""
from __future__ import annotations

from hypothesis import strategies as st

BIG = "memref<16xi32>"
DYN = -9223372036854775808

DM, COMPUTE, NEUTRAL = "dm", "compute", "neutral"


# dart streaming regions whose inner dart.generic holds a kernel op: flavor -> (op, accelerator, kernel, in type, out type, core kind).
# On compute accelerators every one of them is a compute op. On snax_xdma a region is a data-mover op iff its kernel is provided by a
# streamer extension (kernel.add i32,i32->i32; kernel.rescale i32->i8 / i8->i32), otherwise a compute op (documented intent of
# dispatching_rules.py). Flavors >= XDMA_FLAVOR_MIN need a context with snax_xdma registered.
DART_KERNELS = {
    4: ("dart.operation", "snax_alu", "add", "i32", "i32", COMPUTE),
    5: ("dart.schedule", "snax_gemmx", "add", "i32", "i32", COMPUTE),
    6: ("dart.operation", "snax_gemmx", "rescale", "i32", "i8", COMPUTE),
    7: ("dart.schedule", "snax_alu", "mul", "i32", "i32", COMPUTE),
    8: ("dart.schedule", "snax_gemmx", "rescale", "i8", "i32", COMPUTE),
    9: ("dart.operation", "snax_alu", "add", "i8", "i8", COMPUTE),
    10: ("dart.operation", "snax_xdma", "add", "i32", "i32", DM),
    11: ("dart.schedule", "snax_xdma", "rescale", "i32", "i8", DM),
    12: ("dart.operation", "snax_xdma", "rescale", "i8", "i32", DM),
    13: ("dart.operation", "snax_xdma", "mul", "i32", "i32", COMPUTE),
    14: ("dart.schedule", "snax_xdma", "add", "i8", "i8", COMPUTE),
    15: ("dart.operation", "snax_xdma", "rescale", "i32", "i32", COMPUTE),  # kernel class of an extension, operand types of none
    # fused regions: 2+ dart.generic ops chained through streams. The rules look at the FIRST generic only
    # ("str_op := op.body.block.first_op"), so the first kernel decides the core.
    16: ("dart.operation", "snax_xdma", [["mul", "i32", "i32"], ["add", "i32", "i32"]], None, None, COMPUTE),
    17: ("dart.operation", "snax_xdma", [["add", "i32", "i32"], ["mul", "i32", "i32"]], None, None, DM),
    18: ("dart.schedule", "snax_gemmx", [["mul", "i32", "i32"], ["add", "i32", "i32"], ["rescale", "i32", "i8"]], None, None, COMPUTE),
    19: ("dart.operation", "snax_alu", [["add", "i32", "i32"], ["mul", "i32", "i32"]], None, None, COMPUTE),
    20: ("dart.schedule", "snax_xdma", [["add", "i8", "i8"], ["rescale", "i8", "i32"]], None, None, COMPUTE),
    21: ("dart.schedule", "snax_xdma", [["rescale", "i32", "i8"], ["add", "i8", "i8"]], None, None, DM),
}
XDMA_FLAVOR_MIN = 10


def small_type(off):
    return f"memref<4xi32, strided<[1], offset: {'?' if off is None else off}>>"


# ------------------------------------------------------------------------------------ strategies

_ref = st.integers(0, 11)


@st.composite
def _stmt_list(draw, depth, budget, flags, in_loop=False, min_stmts=1):
    n = draw(st.integers(min_stmts, max(min_stmts, min(6, budget))))
    out = []
    for _ in range(n):
        kinds = ["copy"] * flags["w_copy"] + ["gen"] * flags["w_gen"] + ["view"] * flags["w_view"] + ["alloc"] * flags["w_alloc"]
        kinds += ["use"] * flags["w_use"] + ["op"] * flags["w_op"] + ["call"] * flags["w_call"] + ["bar"] * flags["w_bar"]
        kinds += ["dealloc"] * flags["w_dealloc"]
        kinds += ["scoped"] * flags.get("w_scoped", 0) + ["callf"] * flags.get("w_callf", 0) + ["coreid"] * flags.get("w_coreid", 0)
        if depth > 0:
            kinds += ["diamond"] * flags.get("w_diamond", 0)
        if depth > 0:
            kinds += ["for"] * flags["w_for"]
            kinds += ["if"] * flags["w_if"] + ["region"] * flags["w_region"]
        k = draw(st.sampled_from(kinds))
        if k == "copy":
            out.append(["copy", draw(st.integers(0, 1)), draw(_ref), draw(_ref)])
        elif k == "gen":
            nin = draw(st.integers(1, 2))
            out.append(["gen", draw(st.sampled_from(flags["flavors"])), draw(st.integers(0, 1)), [draw(_ref) for _ in range(nin)], draw(_ref)])
        elif k == "view":
            off = draw(st.one_of(st.tuples(st.just("c"), st.sampled_from([0, 0, 2, 4, 8, 12])).map(list),
                                 st.tuples(st.just("iv"), st.sampled_from([1, 4])).map(list)))
            out.append(["view", draw(st.sampled_from([0, 0, 0, 1])), draw(_ref), off])
        elif k == "alloc":
            out.append(["alloc"])
        elif k == "callf":
            out.append(["callf", draw(st.integers(0, 1))])
        elif k == "coreid":
            out.append(["coreid", draw(st.integers(0, 2))])
        elif k == "scoped":
            # alloc; a few data-mover / compute ops on the fresh buffer (ref -1 = newest 16-element value); dealloc
            out.append(["alloc"])
            inner = []
            for _ in range(draw(st.integers(1, 3))):
                other = draw(_ref)
                shape = draw(st.integers(0, 3))
                if draw(st.integers(0, 2)) == 0:
                    # access the fresh buffer through a view only
                    inner.append(["view", 0, -1, ["c", draw(st.sampled_from([0, 4, 8]))]])
                    if shape == 0:
                        inner.append(["copy", 1, other, -1])
                    elif shape == 1:
                        inner.append(["copy", 1, -1, other])
                    elif shape == 2:
                        inner.append(["gen", draw(st.sampled_from(flags["flavors"])), 1, [other], -1])
                    else:
                        inner.append(["gen", draw(st.sampled_from(flags["flavors"])), 1, [-1], other])
                elif shape == 0:
                    inner.append(["copy", 0, other, -1])
                elif shape == 1:
                    inner.append(["copy", 0, -1, other])
                elif shape == 2:
                    inner.append(["gen", draw(st.sampled_from(flags["flavors"])), 0, [other], -1])
                else:
                    inner.append(["gen", draw(st.sampled_from(flags["flavors"])), 0, [-1], other])
            if depth > 0 and draw(st.integers(0, 3)) == 0:
                inner = [["for", inner]]
                if draw(st.integers(0, 2)) == 0:
                    inner[0].append(draw(_const_bounds(min_trips=1)))
                    if depth > 1 and draw(st.booleans()):
                        # the constant-bound loop (often a single trip) sits in another loop whose trip count is a run-time input
                        inner = [["for", inner]]
            out.extend(inner)
            if draw(st.integers(0, 4)) == 0:
                out.append(["bar"])
            out.append(["dealloc", -1])
        elif k == "diamond":
            # producer on one core before an scf.if; consumers on the other core inside either/both branches and/or after it;
            # optionally a pre-existing barrier in one branch only
            buf, other = draw(_ref), draw(_ref)
            flv = draw(st.sampled_from(flags["flavors"]))
            dm_first = draw(st.booleans())

            def prod():
                return ["copy", 0, other, buf] if dm_first else ["gen", flv, 0, [other], buf]

            def cons():
                if draw(st.booleans()):
                    return ["gen", flv, 0, [buf], other] if dm_first else ["copy", 0, buf, other]
                return ["gen", flv, 0, [other], buf] if dm_first else ["copy", 0, other, buf]

            where = draw(st.sampled_from([1, 2, 3, 3, 3, 4, 5, 6, 7, 7]))  # bit0 then, bit1 else, bit2 after
            th = [cons()] if where & 1 else []
            el = [cons()] if where & 2 else []
            barb = draw(st.sampled_from([0, 0, 1, 2]))
            if barb == 1:
                th.insert(draw(st.integers(0, len(th))), ["bar"])
            elif barb == 2:
                el.insert(draw(st.integers(0, len(el))), ["bar"])
            if not th:
                th = [["use", 0, other]] if el else [cons()]
            cond = draw(st.one_of(st.tuples(st.just("p"), st.integers(0, 2)).map(list),
                                  st.tuples(st.just("iv"), st.sampled_from([0, 1, 2, 4]), st.integers(0, 2)).map(list)))
            out.append(prod())
            out.append(["if", cond, th, el])
            if where & 4:
                out.append(cons())
        elif k == "use":
            out.append(["use", draw(st.integers(0, 1)), draw(_ref)])
        elif k == "op":
            out.append(["op", draw(_ref)])
        elif k == "call":
            out.append(["call", draw(st.integers(0, 1)), draw(_ref)])
        elif k == "bar":
            out.append(["bar"])
        elif k == "dealloc":
            out.append(["dealloc", draw(st.integers(0, 3))])
        elif k == "for":
            f_ = ["for", draw(_stmt_list(depth - 1, max(1, budget // 2), flags, True))]
            if draw(st.integers(0, 3)) == 0:
                f_.append(draw(_const_bounds()))
            out.append(f_)
        elif k == "if":
            cond = draw(st.one_of(st.tuples(st.just("p"), st.integers(0, 2)).map(list),
                                  st.tuples(st.just("iv"), st.sampled_from([0, 1, 2, 4]), st.integers(0, 2)).map(list)))
            th = draw(_stmt_list(depth - 1, max(1, budget // 2), flags, in_loop))
            el = draw(st.one_of(st.just([]), _stmt_list(depth - 1, max(1, budget // 2), flags, in_loop)))
            out.append(["if", cond, th, el])
        else:
            mode = draw(st.sampled_from([0, 1, 1, 2]))  # 0: test.op region ending in "test.termop"; 1 / 2: pipeline with 1 / 2 terminator-less stages
            bodies = []
            for _ in range(2 if mode == 2 else 1):
                body = draw(_stmt_list(depth - 1, max(1, budget // 2), flags, in_loop))
                if mode and draw(st.integers(0, 2)) > 0:
                    # the block has no terminator: let it END in a dispatchable op (or hold nothing else)
                    tail = draw(st.sampled_from([["copy", 0, draw(_ref), draw(_ref)], ["gen", draw(st.sampled_from(flags["flavors"])), 0, [draw(_ref)], draw(_ref)]]))
                    body = [tail] if draw(st.integers(0, 3)) == 0 else body + [tail]
                bodies.append(body)
            out.append(["region", bodies[0], mode] + bodies[1:])
    return out


@st.composite
def _const_bounds(draw, min_trips=0):
    """Constant (lb, ub, step): trip counts 0 (also with ub < lb), 1, 2, 3; the range need not be a multiple of the step."""
    lb_, st_ = draw(st.sampled_from([0, 0, 1, 4])), draw(st.sampled_from([1, 2, 3, 8]))
    trips = draw(st.sampled_from([t for t in (0, 1, 1, 2, 2, 3) if t >= min_trips]))
    if trips == 0:
        return [lb_, lb_ - draw(st.integers(0, 4)), st_]
    return [lb_, lb_ + (trips - 1) * st_ + 1 + draw(st.integers(0, st_ - 1)), st_]


def count_loops(stmts):
    n = 0
    for s in stmts:
        if s[0] == "for":
            n += 1 + count_loops(s[1])
        elif s[0] == "if":
            n += count_loops(s[2]) + count_loops(s[3])
        elif s[0] == "region":
            n += count_loops(s[1]) + (count_loops(s[3]) if len(s) > 3 else 0)
    return n


C14_FLAGS = dict(w_copy=4, w_gen=4, w_view=2, w_alloc=1, w_use=1, w_op=2, w_call=1, w_bar=1, w_dealloc=0, w_for=3, w_if=3,
                 w_region=2, w_coreid=1, flavors=[0, 0, 1, 2, 3, 4, 5, 5, 6, 6, 7, 8, 9, 10, 11, 12, 13, 14, 15, 16, 16, 17, 18, 19, 20, 21])
C13_FLAGS = dict(w_copy=6, w_gen=6, w_view=3, w_alloc=2, w_use=1, w_op=0, w_call=0, w_bar=1, w_dealloc=2, w_for=8, w_if=4,
                 w_region=0, w_scoped=2, w_diamond=3, flavors=[0, 0, 0, 1, 2, 3, 5, 6, 10, 10, 11, 12, 13, 14, 14, 15, 16, 17, 18, 20, 21])


@st.composite
def _inputs(draw, nloops, nvec, trip_pool):
    vecs = []
    for _ in range(nvec):
        vecs.append(dict(trips=[draw(st.sampled_from(trip_pool)) for _ in range(nloops)],
                         p=[draw(st.integers(0, 1)) for _ in range(3)], x=draw(st.integers(0, 3))))
    return vecs


@st.composite
def program_c14(draw, tier="quick"):
    depth = 3 if tier == "quick" else 4
    budget = 8 if tier == "quick" else 12
    nb = draw(st.sampled_from([1, 1, 2, 3]))
    nh = draw(st.sampled_from([0, 0, 0, 1, 1, 2]))
    helpers = [dict(vis=draw(st.sampled_from(["private", "private", "private", "public", "none"])),
                    body=draw(_stmt_list(max(1, depth - 1), max(2, budget // 2), C14_FLAGS))) for _ in range(nh)]
    flags = dict(C14_FLAGS, w_callf=2) if nh else C14_FLAGS
    blocks = [draw(_stmt_list(depth, budget if i == 0 else max(2, budget // 2), flags)) for i in range(nb)]
    terms = []
    for i in range(nb - 1):
        later = list(range(i + 1, nb))
        if draw(st.booleans()):
            terms.append(["br", draw(st.sampled_from(later))])
        else:
            terms.append(["cond", draw(st.integers(0, 2)), draw(st.sampled_from(later)), draw(st.sampled_from(later))])
    nloops = max([sum(count_loops(b) for b in blocks)] + [count_loops(h["body"]) for h in helpers])
    r = dict(nb_cores=draw(st.integers(2, 5)), nargs=draw(st.integers(1, 3)), blocks=blocks, terms=terms,
             ret=draw(st.sampled_from([0, 0, 1, 2])), inputs=draw(_inputs(nloops, 2, [0, 1, 2, 2, 3])))
    r["vis"] = draw(st.sampled_from(["none", "none", "public", "private"]))
    if helpers:
        r["helpers"] = helpers
    return r


@st.composite
def program_c13(draw, tier="quick"):
    depth = 3
    budget = 8 if tier == "quick" else 12
    body = draw(_stmt_list(depth, budget, C13_FLAGS, min_stmts=3))
    nloops = count_loops(body)
    inputs = draw(_inputs(nloops, 2, [0, 1, 2, 2, 3, 3]))
    inputs[1]["p"] = [1 - v for v in inputs[0]["p"]]  # every i1 argument takes both outcomes across the two vectors
    return dict(nb_cores=draw(st.sampled_from([2, 3, 3])), nargs=draw(st.integers(1, 2)), blocks=[body], terms=[], ret=0, inputs=inputs)


# ------------------------------------------------------------------------------------ builder

class Built:
    def __init__(self):
        self.text = ""
        self.arg_names: list[str] = []
        self.arg_types: list[str] = []
        self.kinds: dict[int, str] = {}  # tag -> dm | compute | neutral
        self.opnames: dict[int, str] = {}  # tag -> statement kind
        self.nloops = 0
        self.features: set[str] = set()
        self.max_depth = 0
        self.nargs = 0
        self.helpers: dict = {}
        self.calls_helper = False
        self.reads_core_id = False  # pre-existing snax_cluster_core_idx call, or calls a helper (which may read it)
        self.name = "main"


ID_MAP = "affine_map<(d0) -> (d0)>"


MODULE_HEAD = ["builtin.module {",
               '  "func.func"() <{sym_name = "ext0", function_type = (index) -> (), sym_visibility = "private"}> ({}) : () -> ()',
               '  "func.func"() <{sym_name = "ext1", function_type = (index) -> (), sym_visibility = "private"}> ({}) : () -> ()']


CORE_IDX_DECL = '  "func.func"() <{sym_name = "snax_cluster_core_idx", function_type = () -> i32, sym_visibility = "private"}> ({}) : () -> ()'


def build(recipe, func_name="main", tag_start=0, visibility=None, callees=()) -> Built:
    """Build ONE function (plus a module holding just it). `callees` = [(name, number of trip-count arguments)] of helper
    functions with the same leading signature that ["callf", k] statements may call."""
    b = Built()
    nargs = max(1, recipe["nargs"])
    b.nargs = nargs
    ctr = [0]
    tagc = [tag_start]

    def fresh(p):
        ctr[0] += 1
        return f"%{p}{ctr[0]}"

    def tag(kind, what):
        tagc[0] += 1
        b.kinds[tagc[0]] = kind
        b.opnames[tagc[0]] = what
        return tagc[0]

    loop_args: list[str] = []

    class Scope:
        def __init__(self, big, small, idx, ivs):
            self.big = big  # list of (name, type, offset_static_or_None) ; offset irrelevant for big
            self.small = small  # list of (name, type, static offset | None)
            self.idx = idx  # index values
            self.ivs = ivs  # enclosing induction variables (innermost last)
            self.allocs: list[str] = []  # live allocs defined in this block
            self.derived: dict[str, str] = {}

        def child(self, iv=None):
            s = Scope(list(self.big), list(self.small), list(self.idx) + ([iv] if iv else []), list(self.ivs) + ([iv] if iv else []))
            s.derived = self.derived
            return s

    derived_root: dict[str, str] = {}  # value name -> name of the alloc/arg it is derived from

    def emit(stmts, sc: Scope, ind, depth, in_branch=False):
        out = []
        pad = "  " * ind
        b.max_depth = max(b.max_depth, depth)
        last_kind = None  # kind of the previous statement in this block (for 'adjacent' feature)
        for s in stmts:
            k = s[0]
            this_kind = None
            if k == "alloc":
                nm = fresh("al")
                t = tag(NEUTRAL, "alloc")
                out.append(f'{pad}{nm} = "memref.alloc"() <{{operandSegmentSizes = array<i32: 0, 0>}}> {{tag = {t} : i32}} : () -> {BIG}')
                sc.big.append((nm, BIG, 0))
                sc.allocs.append(nm)
                derived_root[nm] = nm
            elif k == "view":
                _, cls, ref, off = s
                if cls == 1 and sc.small:
                    src, sty, soff = sc.small[ref % len(sc.small)]
                    # alias / partially overlapping sub-view of a 4-element view
                    o = off[1] if off[0] == "c" and off[1] in (0, 2) else 0
                    dyn = None
                    roff = None if soff is None else soff + o
                else:
                    src, sty, soff = sc.big[ref % len(sc.big)]
                    if off[0] == "iv" and sc.ivs:
                        o, dyn = None, (sc.ivs[-1], off[1])
                        roff = None
                    else:
                        o = off[1] if off[0] == "c" else 0
                        dyn = None
                        roff = o
                nm = fresh("sv")
                rty = small_type(roff)
                if dyn is not None:
                    iv, mul = dyn
                    if mul != 1:
                        cm = fresh("cm")
                        ov = fresh("ov")
                        out.append(f'{pad}{cm} = "arith.constant"() <{{value = {mul} : index}}> : () -> index')
                        out.append(f'{pad}{ov} = "arith.muli"({iv}, {cm}) : (index, index) -> index')
                    else:
                        ov = iv
                    out.append(f'{pad}{nm} = "memref.subview"({src}, {ov}) <{{operandSegmentSizes = array<i32: 1, 1, 0, 0>, static_offsets = array<i64: {DYN}>, '
                               f'static_sizes = array<i64: 4>, static_strides = array<i64: 1>}}> : ({sty}, index) -> {rty}')
                    b.features.add("view_dynamic")
                else:
                    out.append(f'{pad}{nm} = "memref.subview"({src}) <{{operandSegmentSizes = array<i32: 1, 0, 0, 0>, static_offsets = array<i64: {o}>, '
                               f'static_sizes = array<i64: 4>, static_strides = array<i64: 1>}}> : ({sty}) -> {rty}')
                sc.small.append((nm, rty, roff))
                derived_root[nm] = derived_root.get(src, src)
                b.features.add("view")
            elif k in ("copy", "gen", "use"):
                cls = s[1] if k != "gen" else s[2]
                pool = sc.small if (cls == 1 and sc.small) else sc.big
                if k == "copy":
                    a = pool[s[2] % len(pool)]
                    d = pool[s[3] % len(pool)]
                    t = tag(DM, "copy")
                    out.append(f'{pad}"memref.copy"({a[0]}, {d[0]}) {{tag = {t} : i32}} : ({a[1]}, {d[1]}) -> ()')
                    this_kind = DM
                elif k == "use":
                    a = pool[s[2] % len(pool)]
                    t = tag(NEUTRAL, "use")
                    out.append(f'{pad}"test.op"({a[0]}) {{tag = {t} : i32}} : ({a[1]}) -> ()')
                else:
                    _, flavor, _, ins, o = s
                    iv_ = [pool[r % len(pool)] for r in ins] or [pool[0]]
                    ov_ = pool[o % len(pool)]
                    dk = DART_KERNELS.get(flavor)
                    if dk is None:
                        flavor = flavor % 4
                        t = tag(COMPUTE, ["generic_lib", "generic", "dart_operation", "dart_schedule"][flavor])
                    else:
                        t = tag(dk[5], f"{dk[0].replace('.', '_')}:{dk[1]}:kernel.{dk[2] if isinstance(dk[2], str) else '+'.join(k[0] for k in dk[2])}")
                    opnds = ", ".join(v[0] for v in iv_ + [ov_])
                    tys = ", ".join(v[1] for v in iv_ + [ov_])
                    n_all = len(iv_) + 1
                    if dk is not None:
                        opn, acc, kern, ity, oty, this_kind = dk
                        if isinstance(kern, list):
                            ity, oty = kern[0][1], kern[-1][2]
                        extra = ""
                        if opn == "dart.schedule":
                            extra = (", bounds = [4 : index], tiles = [" + ", ".join(["[4 : index]"] * n_all) + "]")
                        bargs = ", ".join([f"%g{t}_{i}: !dart.stream<{ity}>" for i in range(len(iv_))] + [f"%g{t}_{len(iv_)}: !dart.stream<{oty}>"])
                        out.append(f'{pad}"{opn}"({opnds}) <{{patterns = [{", ".join([ID_MAP] * n_all)}], accelerator = "{acc}", '
                                   f'operandSegmentSizes = array<i32: {len(iv_)}, 1>{extra}}}> ({{')
                        out.append(f'{pad}^bb0({bargs}):')
                        steps = kern if isinstance(kern, list) else [[kern, ity, oty]]
                        ity, oty = steps[0][1], steps[-1][2]
                        cur = f"%g{t}_0"
                        for si, (kname, kin, kout) in enumerate(steps):
                            res = f"%g{t}_r" if si == len(steps) - 1 else f"%g{t}_s{si}"
                            if kname == "rescale":
                                out.append(f'{pad}  {res} = "dart.generic"({cur}) <{{library_call = "{acc}"}}> ({{')
                                out.append(f'{pad}  ^bb1(%g{t}_{si}in: {kin}):')
                                out.append(f'{pad}    %g{t}_{si}k = "kernel.rescale"(%g{t}_{si}in) {{input_zp = 0 : i32, output_zp = 0 : i32, multiplier = array<i32: 1073741824>, '
                                           f'shift = array<i8: 30>, min_int = -128 : i32, max_int = 127 : i32, double_round = true}} : ({kin}) -> {kout}')
                                out.append(f'{pad}    "dart.yield"(%g{t}_{si}k) : ({kout}) -> ()')
                                out.append(f'{pad}  }}) : (!dart.stream<{kin}>) -> !dart.stream<{kout}>')
                            else:
                                second = f"%g{t}_1" if (si == 0 and len(iv_) >= 2) else cur
                                out.append(f'{pad}  {res} = "dart.generic"({cur}, {second}) <{{library_call = "{acc}"}}> ({{')
                                out.append(f'{pad}  ^bb1(%g{t}_{si}in: {kin}, %g{t}_{si}in2: {kin}):')
                                out.append(f'{pad}    %g{t}_{si}k = "kernel.{kname}"(%g{t}_{si}in, %g{t}_{si}in2) : ({kin}, {kin}) -> {kout}')
                                out.append(f'{pad}    "dart.yield"(%g{t}_{si}k) : ({kout}) -> ()')
                                out.append(f'{pad}  }}) : (!dart.stream<{kin}>, !dart.stream<{kin}>) -> !dart.stream<{kout}>')
                            cur = res
                            b.features.add("dart_kernel:" + kname)
                        if len(steps) > 1:
                            b.features.add("dart_fused_chain")
                        out.append(f'{pad}  "dart.yield"(%g{t}_r) : (!dart.stream<{oty}>) -> ()')
                        out.append(f'{pad}}}) {{tag = {t} : i32}} : ({tys}) -> ()')
                        if acc == "snax_xdma":
                            b.features.add("xdma_extension_kernel_dm" if this_kind == DM else "xdma_other_kernel_compute")
                    elif flavor % 4 in (0, 1):
                        lib = ', library_call = "snax_alu"' if flavor % 4 == 0 else ""
                        bargs = ", ".join(f"%g{t}_{i}: i32" for i in range(n_all))
                        out.append(f'{pad}"linalg.generic"({opnds}) <{{indexing_maps = [{", ".join([ID_MAP] * n_all)}], '
                                   f'iterator_types = [#linalg.iterator_type<parallel>], operandSegmentSizes = array<i32: {len(iv_)}, 1>{lib}}}> ({{')
                        out.append(f'{pad}^bb0({bargs}):')
                        out.append(f'{pad}  "linalg.yield"(%g{t}_0) : (i32) -> ()')
                        out.append(f'{pad}}}) {{tag = {t} : i32}} : ({tys}) -> ()')
                    else:
                        opn = "dart.operation" if flavor % 4 == 2 else "dart.schedule"
                        acc = "snax_alu" if flavor % 4 == 2 else "snax_gemmx"
                        extra = ""
                        if flavor % 4 == 3:
                            extra = (", bounds = [4 : index], tiles = [" + ", ".join(["[4 : index]"] * n_all) + "]")
                        bargs = ", ".join(f"%g{t}_{i}: !dart.stream<i32>" for i in range(n_all))
                        out.append(f'{pad}"{opn}"({opnds}) <{{patterns = [{", ".join([ID_MAP] * n_all)}], accelerator = "{acc}", '
                                   f'operandSegmentSizes = array<i32: {len(iv_)}, 1>{extra}}}> ({{')
                        out.append(f'{pad}^bb0({bargs}):')
                        out.append(f'{pad}  %g{t}_r = "dart.generic"(%g{t}_0) <{{library_call = "{acc}"}}> ({{')
                        out.append(f'{pad}  ^bb1(%g{t}_in: i32):')
                        out.append(f'{pad}    "dart.yield"(%g{t}_in) : (i32) -> ()')
                        out.append(f'{pad}  }}) : (!dart.stream<i32>) -> !dart.stream<i32>')
                        out.append(f'{pad}  "dart.yield"(%g{t}_r) : (!dart.stream<i32>) -> ()')
                        out.append(f'{pad}}}) {{tag = {t} : i32}} : ({tys}) -> ()')
                    if dk is None:
                        this_kind = COMPUTE
            elif k == "op":
                v = sc.idx[s[1] % len(sc.idx)]
                t = tag(NEUTRAL, "op")
                r = fresh("o")
                out.append(f'{pad}{r} = "test.op"({v}) {{tag = {t} : i32}} : (index) -> index')
                sc.idx.append(r)
            elif k == "call":
                v = sc.idx[s[2] % len(sc.idx)]
                t = tag(NEUTRAL, "call")
                out.append(f'{pad}"func.call"({v}) <{{callee = @ext{s[1] % 2}}}> {{tag = {t} : i32}} : (index) -> ()')
            elif k == "coreid":
                cid = fresh("cid")
                out.append(f'{pad}{cid} = "func.call"() <{{callee = @snax_cluster_core_idx}}> : () -> i32')
                if s[1]:
                    t = tag(NEUTRAL, "core_id_user")
                    out.append(f'{pad}"test.op"({cid}) {{tag = {t} : i32}} : (i32) -> ()')
                b.features.add("pre_existing_core_idx_call")
                b.reads_core_id = True
            elif k == "callf":
                if callees:
                    cname, ntrip = callees[s[1] % len(callees)]
                    cargs = [f"%m{i}" for i in range(nargs)] + ["%x0", "%p0", "%p1", "%p2"] + ["%x0"] * ntrip
                    ctys = [BIG] * nargs + ["index", "i1", "i1", "i1"] + ["index"] * ntrip
                    out.append(f'{pad}"func.call"({", ".join(cargs)}) <{{callee = @{cname}}}> : ({", ".join(ctys)}) -> ()')
                    b.features.add("calls_helper")
                    b.calls_helper = True
                    b.reads_core_id = True
            elif k == "bar":
                t = tag(NEUTRAL, "barrier")
                out.append(f'{pad}"snax.cluster_sync_op"() {{tag = {t} : i32}} : () -> ()')
                b.features.add("pre_barrier")
                if in_branch:
                    b.features.add("pre_barrier_in_branch")
            elif k == "dealloc":
                if sc.allocs:
                    nm = sc.allocs.pop(s[1] % len(sc.allocs))
                    t = tag(NEUTRAL, "dealloc")
                    out.append(f'{pad}"memref.dealloc"({nm}) {{tag = {t} : i32}} : ({BIG}) -> ()')
                    sc.big = [v for v in sc.big if v[0] != nm]
                    sc.small = [v for v in sc.small if derived_root.get(v[0]) != nm]
                    b.features.add("dealloc")
            elif k == "for":
                lid = b.nloops
                b.nloops += 1
                ub = f"%n{lid}"
                loop_args.append(ub)
                iv = fresh("i")
                body = emit(s[1], sc.child(iv), ind + 1, depth + 1, in_branch)
                lbn, stn = "%c0", "%c1"
                if len(s) > 2 and s[2]:
                    lbn, ub, stn = fresh("klb"), fresh("kub"), fresh("kst")
                    for nm_, v_ in zip((lbn, ub, stn), s[2]):
                        out.append(f'{pad}{nm_} = "arith.constant"() <{{value = {v_} : index}}> : () -> index')
                    b.features.add("const_bounds_loop")
                    if (s[2][1] - s[2][0]) % s[2][2]:
                        b.features.add("const_bounds_loop_partial_last_step")
                out.append(f'{pad}"scf.for"({lbn}, {ub}, {stn}) ({{')
                out.append(f'{pad}^bb0({iv}: index):')
                out.extend(body)
                out.append(f'{pad}  "scf.yield"() : () -> ()')
                out.append(f'{pad}}}) : (index, index, index) -> ()')
                b.features.add("loop")
                if depth >= 1:
                    b.features.add("nested")
            elif k == "if":
                _, cond, th, el = s
                if cond[0] == "iv" and sc.ivs:
                    c = fresh("q")
                    kc = fresh("kc")
                    out.append(f'{pad}{kc} = "arith.constant"() <{{value = {cond[2]} : index}}> : () -> index')
                    out.append(f'{pad}{c} = "arith.cmpi"({sc.ivs[-1]}, {kc}) <{{predicate = {cond[1]} : i64}}> : (index, index) -> i1')
                else:
                    c = f"%p{cond[1] % 3}"
                thl = emit(th, sc.child(), ind + 1, depth + 1, True)
                ell = emit(el, sc.child(), ind + 1, depth + 1, True) if el else None
                out.append(f'{pad}"scf.if"({c}) ({{')
                out.extend(thl)
                out.append(f'{pad}  "scf.yield"() : () -> ()')
                out.append(f'{pad}}}, {{')
                if ell is not None:
                    out.extend(ell)
                    out.append(f'{pad}  "scf.yield"() : () -> ()')
                out.append(f'{pad}}}) : (i1) -> ()')
                b.features.add("if")
                if el:
                    b.features.add("if_else")
                if sc.ivs:
                    b.features.add("if_in_loop")
                if depth >= 1:
                    b.features.add("nested")
            elif k == "region":
                mode = s[2] if len(s) > 2 else 0
                if mode == 0:
                    t = tag(NEUTRAL, "region")
                    body = emit(s[1], sc.child(), ind + 1, depth + 1, in_branch)
                    out.append(f'{pad}"test.op"() ({{')
                    out.extend(body)
                    out.append(f'{pad}  "test.termop"() : () -> ()')
                    out.append(f'{pad}}}) {{tag = {t} : i32}} : () -> ()')
                    b.features.add("region_op")
                else:
                    # terminator-less blocks: pipeline.pipeline { pipeline.stage k { ... } ... } (NoTerminator ops of the snax pipeline
                    # dialect; pipeline.pipeline must sit directly in an scf.for, so it gets a one-trip loop of its own)
                    bodies = [s[1]] + ([s[3]] if (mode == 2 and len(s) > 3) else [])
                    piv = fresh("pi")
                    out.append(f'{pad}"scf.for"(%c0, %c1, %c1) ({{')
                    out.append(f'{pad}^bb0({piv}: index):')
                    out.append(f'{pad}  "pipeline.pipeline"() ({{')
                    for ri, rb in enumerate(bodies):
                        body = emit(rb, sc.child(), ind + 3, depth + 3, in_branch)
                        out.append(f'{pad}    "pipeline.stage"() <{{index = {ri} : index, operandSegmentSizes = array<i32: 0, 0>}}> ({{')
                        out.extend(body)
                        if not body:
                            t = tag(NEUTRAL, "op")
                            out.append(f'{pad}      "test.op"() {{tag = {t} : i32}} : () -> ()')
                        elif rb and rb[-1][0] in ("copy", "gen"):
                            b.features.add("terminator_less_block_ends_dispatchable")
                        out.append(f'{pad}    }}) : () -> ()')
                    out.append(f'{pad}  }}) : () -> ()')
                    out.append(f'{pad}  "scf.yield"() : () -> ()')
                    out.append(f'{pad}}}) : (index, index, index) -> ()')
                    b.features.add("pipeline_one_stage" if len(bodies) == 1 else "pipeline_two_stages")
            if this_kind is not None:
                b.features.add(this_kind)
                if in_branch:
                    b.features.add("dispatchable_in_branch")
                if depth >= 1:
                    b.features.add("nested_dispatchable")
                if last_kind is not None:
                    b.features.add("adjacent_same" if last_kind == this_kind else "adjacent_mixed")
            last_kind = this_kind
        return out

    mem_args = [(f"%m{i}", BIG, 0) for i in range(nargs)]
    for nm, _, _ in mem_args:
        derived_root[nm] = nm
    top = Scope(list(mem_args), [], ["%x0", "%c0", "%c1"], [])
    blocks = recipe["blocks"]
    nb = len(blocks)
    block_lines = []
    for bi, stmts in enumerate(blocks):
        sc = top if bi == 0 else Scope(list(top.big), list(top.small), list(top.idx), [])
        lines = emit(stmts, sc, 2, 0)
        if bi == 0:
            top = sc
        if bi < nb - 1:
            term = recipe["terms"][bi]
            if term[0] == "br":
                tgt = min(nb - 1, max(bi + 1, term[1]))
                lines.append(f'    "cf.br"()[^blk{tgt}] : () -> ()')
            else:
                t1 = min(nb - 1, max(bi + 1, term[2]))
                t2 = min(nb - 1, max(bi + 1, term[3]))
                lines.append(f'    "cf.cond_br"(%p{term[1] % 3})[^blk{t1}, ^blk{t2}] <{{operandSegmentSizes = array<i32: 1, 0, 0>}}> : (i1) -> ()')
        else:
            ret = recipe.get("ret", 0)
            if ret == 1:
                lines.append('    "func.return"(%x0) : (index) -> ()')
            elif ret == 2:
                t = tag(NEUTRAL, "op")
                lines.append(f'    %retv = "test.op"() {{tag = {t} : i32}} : () -> index')
                lines.append('    "func.return"(%retv) : (index) -> ()')
            else:
                lines.append('    "func.return"() : () -> ()')
        block_lines.append(lines)

    args = [(nm, ty) for nm, ty, _ in mem_args] + [("%x0", "index")] + [(f"%p{i}", "i1") for i in range(3)] + [(n, "index") for n in loop_args]
    b.arg_names = [a for a, _ in args]
    b.arg_types = [t for _, t in args]
    rty = "index" if recipe.get("ret", 0) else ""
    sig = ", ".join(t for _, t in args)
    vis = f', sym_visibility = "{visibility}"' if visibility in ("public", "private") else ""
    L = [f'  "func.func"() <{{sym_name = "{func_name}", function_type = ({sig}) -> ({rty}){vis}}}> ({{',
         f'  ^blk0({", ".join(f"{a}: {t}" for a, t in args)}):',
         '    %c0 = "arith.constant"() <{value = 0 : index}> : () -> index',
         '    %c1 = "arith.constant"() <{value = 1 : index}> : () -> index']
    for bi, lines in enumerate(block_lines):
        if bi > 0:
            L.append(f"  ^blk{bi}:")
        L.extend(lines)
    L.append("  }) : () -> ()")
    b.func_lines = L
    b.tag_end = tagc[0]
    b.name = func_name
    b.nblocks = nb
    b.all_kinds = dict(b.kinds)
    b.text = "\n".join(MODULE_HEAD + ([CORE_IDX_DECL] if "pre_existing_core_idx_call" in b.features else []) + L + ["}"])
    if nb > 1:
        b.features.add("multi_block")
    return b


def build_module(recipe) -> Built:
    """Module with the entry function `main` and the recipe's helper functions
    (recipe["helpers"] = [{"vis": "private"|"public"|"none", "body": [stmts]}], recipe["vis"] = visibility of main).
    Returns main's Built with .helpers (name -> Built), .all_kinds (tags of all functions) and merged features."""
    helpers = {}
    tag = 0
    callees = []
    for i, h in enumerate(recipe.get("helpers") or []):
        hb = build(dict(nb_cores=recipe["nb_cores"], nargs=recipe["nargs"], blocks=[h["body"]], terms=[], ret=0), func_name=f"helper{i}",
                   tag_start=tag, visibility=h.get("vis"))
        tag = hb.tag_end
        helpers[hb.name] = hb
        callees.append((hb.name, hb.nloops))
    b = build(recipe, tag_start=tag, visibility=recipe.get("vis"), callees=callees)
    b.helpers = helpers
    lines = list(MODULE_HEAD)
    for hb in helpers.values():
        lines += hb.func_lines
        b.all_kinds.update(hb.kinds)
        b.features |= hb.features
        b.features.add("helper:" + (recipe["helpers"][int(hb.name[6:])].get("vis") or "none") + ("-multi-op" if len(hb.kinds) > 1 else ""))
    if "pre_existing_core_idx_call" in b.features:
        lines.insert(len(MODULE_HEAD), CORE_IDX_DECL)
    lines += b.func_lines + ["}"]
    b.text = "\n".join(lines)
    if helpers:
        b.features.add("multi_function")
    return b


def input_vector(recipe, built: Built, k: int):
    """Argument values (in function argument order) for input vector k, plus the loop trip counts used."""
    inp = recipe["inputs"][k % len(recipe["inputs"])]
    vals = {}
    for i in range(built.nargs):
        vals[f"%m{i}"] = ("arg", i)
    vals["%x0"] = inp.get("x", 0)
    for i in range(3):
        p = inp.get("p") or [0]
        vals[f"%p{i}"] = p[i % len(p)]
    trips = []
    for lid in range(built.nloops):
        tr = inp.get("trips") or [1]
        t = tr[lid % len(tr)]
        vals[f"%n{lid}"] = t
        trips.append(t)
    return [vals[a] for a in built.arg_names], trips
