"""Context construction, parsing, pass application (in-process, same objects snax-opt uses)."""
from __future__ import annotations

import io

from . import compat  # noqa: F401  (must come first)

from xdsl.parser import Parser
from xdsl.printer import Printer

_MAIN_CACHE: dict = {}


def opt_main(passes: str = ""):
    """A SNAXOptMain configured for `passes` (comma separated pipeline string)."""
    from snaxc.tools.snax_opt_main import SNAXOptMain

    args = ["--allow-unregistered-dialect"]
    if passes:
        args = ["-p", passes] + args
    return SNAXOptMain(args=args)


def fresh_ctx():
    return opt_main("").ctx


def parse(text: str, ctx=None):
    ctx = ctx or fresh_ctx()
    mod = Parser(ctx, text).parse_module()
    return mod


def apply_passes(mod, passes: str, ctx=None, verify=True):
    """Apply a snax-opt pipeline string to `mod` in place."""
    m = opt_main(passes)
    c = ctx or m.ctx
    if verify:
        mod.verify()
    m.pipeline.apply(c, mod)
    if verify:
        mod.verify()
    return mod


def to_text(op, generic: bool = False) -> str:
    s = io.StringIO()
    Printer(s, print_generic_format=generic).print_op(op)
    return s.getvalue()
