"""Context construction, parsing, pass application (in-process, same objects snax-opt uses)."""
from __future__ import annotations

import io

from . import compat  # noqa: F401  (must come first)

from xdsl.parser import Parser
from xdsl.printer import Printer

_MAIN_CACHE: dict = {}


def opt_main(passes: str = ""):
    """A SNAXOptMain configured for `passes` (comma separated pipeline string)."""
    from snaxc.tools.snax_opt_main import SNAXOptMain

    args = ["--allow-unregistered-dialect"]
    if passes:
        args = ["-p", passes] + args
    return SNAXOptMain(args=args)


def fresh_ctx():
    return opt_main("").ctx


def parse(text: str, ctx=None):
    ctx = ctx or fresh_ctx()
    mod = Parser(ctx, text).parse_module()
    return mod


def apply_passes(mod, passes: str, ctx=None, verify=True):
    """Apply a snax-opt pipeline string to `mod` in place."""
    m = opt_main(passes)
    c = ctx or m.ctx
    if verify:
        mod.verify()
    m.pipeline.apply(c, mod)
    if verify:
        mod.verify()
    return mod


def to_text(op, generic: bool = False) -> str:
    s = io.StringIO()
    Printer(s, print_generic_format=generic).print_op(op)
    return s.getvalue()


_CTX = None


def shared_ctx():
    """One AccContext per process (parsing only loads dialects into it)."""
    global _CTX
    if _CTX is None:
        _CTX = fresh_ctx()
    return _CTX


def get_pass(name: str, **kwargs):
    """Instantiate a registered snax-opt pass by its pipeline name (same class snax-opt -p resolves)."""
    from snaxc.transforms import get_all_snax_passes
    from xdsl.transforms import get_all_passes

    table = get_all_snax_passes()
    if name not in table:
        table = get_all_passes()
    return table[name]()(**kwargs)


def run_pass(mod, name: str, ctx=None, **kwargs):
    get_pass(name, **kwargs).apply(ctx or shared_ctx(), mod)
    return mod


class PassTimeout(BaseException):
    """Raised by `time_limit`. A BaseException on purpose: xDSL's pattern driver intercepts `Exception`s raised inside a pattern and
    re-raises them with a printed copy of the whole module, which can take very long on a module that a runaway rewrite has blown up."""


class time_limit:
    """Guard around code under test that may not terminate (main thread only).
    The budget is process CPU time (ITIMER_PROF), so a heavily loaded machine does not turn slow cases into rejections.
    A hit is 'inconclusive' (Reject), never a violation."""

    def __init__(self, seconds: float):
        self.seconds = seconds

    def __enter__(self):
        import signal

        def handler(signum, frame):
            raise PassTimeout(f"no result within {self.seconds}s of CPU time")

        self._old = signal.signal(signal.SIGPROF, handler)
        signal.setitimer(signal.ITIMER_PROF, self.seconds)
        return self

    def __exit__(self, *exc):
        import signal

        signal.setitimer(signal.ITIMER_PROF, 0)
        signal.signal(signal.SIGPROF, self._old)
        return False
