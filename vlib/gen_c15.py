"""C15 recipes: pipelinable loops (Hypothesis strategies + MLIR builder).

Recipe (JSON):
  S        number of stages
  lb, ub, step   loop bounds (constants); "lb_dyn" / "ub_dyn" / "step_dyn": true passes that bound as an index function argument
           instead (executed with the recipe's value), ["add", k] computes it as argument + %c<k> (argument value: bound - k)
  canon    run pipeline-canonicalize-for first (mostly set when lb != 0 or step != 1, as in the real pipeline)
  nG       number of big global tensors (function arguments memref<128x4xi32>) G0..
  args     rows of the small whole-buffer function arguments a0.. (memref<rx4xi32>)
  l1       rows of the L1 allocations b0.. (memref<Rx4xi32, "L1">), allocated before the loop
  idx      pure index arithmetic in the loop body: [op, x, y]; x, y index the pool [%i, 0, 1, 2, 3, 4, results...]
           (taken modulo the pool size at that point)
  views    [base kind "G"|"B", k, pool ref, rows r]: subview of r whole rows at row pool[ref]
           (for an L1 base the row is reduced with remui so it stays inside the buffer)
  stages   S lists of ops; op = ["copy", src, dst] | ["gen", [ins], [outs], rw] | ["dart", [ins], [outs]]
           operand = ["b", k] whole L1 alloc | ["a", k] whole argument | ["v", k] view k
                     | ["x", k] pool value k as scalar index input (linalg.generic, not first input)
  post     ops after the loop (operands "a"/"b", and the outer views "pv"/"qv")
  cse      subset of ["lb", "ub", "step"]: that bound of the loop is not a constant of its own but the pool constant %c<value>
           (when 0 <= value < 5), as CSE'd MLIR has it: every other user of %c<value> then shares the SSA value with the loop bound
  pool refs (idx x / y, view row, "x" operand) may also be the strings "lb" | "ub" | "step": the SSA value the loop uses as that bound
  pre_views / post_views   [base "G", k, cref, rows]: subview of a global defined before / after the loop at a constant row;
           cref = int c (pool constant %c<c>) | "lb" | "ub" | "step"; operands ["pv", n] (pre / post ops) and ["qv", n] (post ops)
  pre      ops before the loop (operands "a"/"b"/"pv"), followed by one barrier
  loop2    a second, plain loop after the first one (no barrier in its body, so construct-pipeline leaves it alone):
           {"lb": cref, "ub": cref, "step": cref, "src": k, "dst": k, "off": cref | null}: for %j: copy G<src>[%j] -> G<dst>[%j + off]
  tail     (shape sub only) one deviation from the recognised shape:
           ["mid-index", s, "before"|"after"] an index computation before / after the ops of stage s (s >= 1: after a barrier),
           ["double-sync", s] a second barrier after stage s, ["no-last-sync"], ["trailing-op", op] a stage op after the last barrier,
           ["iter-arg"] the loop carries an index counter (iter_args) that selects the source tile
The loop body is: idx ops, views, then the stages, each followed by snax.cluster_sync_op.
Every stage op carries c15.tag = "s<stage>o<k>"; every alloc carries c15.buf = "b<k>" (survives cloning).
Ops before / after the loop carry "pre<k>" / "post<k>", the copy of the second loop "l2o0".
"""
from __future__ import annotations

from dataclasses import dataclass, field

from hypothesis import strategies as st

T = 4
GROWS = 128
NCONST = 5  # constants 0..4 in the pool
IDX_OPS = ["addi", "muli", "remui", "addi", "subi", "divui"]
# Rare input features, each behind one switch (all of them are inside the property's statement; each one currently hits a known
# finding, see props/C15.py K_*): code after the loop that reads an L1 buffer; linalg outs that the body reads (accumulation);
# an index value passed to a kernel as a scalar operand.
VARIANTS = dict(post=True, rw=True, scalar=True)


class BadRecipe(Exception):
    pass


@dataclass
class Built:
    text: str
    arg_specs: list  # [(logical name, rows)] memref arguments in order
    scalar_args: list
    features: set = field(default_factory=set)
    stage_tags: dict = field(default_factory=dict)  # tag -> stage


def _ty_arg(r):
    return f"memref<{r}x{T}xi32>"


def _ty_l1(r):
    return f'memref<{r}x{T}xi32, "L1">'


def _ty_view(r, l1):
    return f'memref<{r}x{T}xi32, strided<[{T}, 1], offset: ?>' + (', "L1">' if l1 else ">")


def build(rc) -> Built:
    S = rc["S"]
    feats = set()
    lines = []
    nG = rc.get("nG", 2)
    args = rc.get("args", [])
    l1 = rc.get("l1", [])
    arg_specs = [(f"G{k}", GROWS) for k in range(nG)] + [(f"a{k}", r) for k, r in enumerate(args)]
    sig = [f"%G{k}: memref<{GROWS}x{T}xi32>" for k in range(nG)] + [f"%a{k}: {_ty_arg(r)}" for k, r in enumerate(args)]
    scalars = []
    dyn_arg = {"lb": "%nl", "ub": "%n", "step": "%ns"}
    dyn = {}
    for which in ("lb", "ub", "step"):
        how = rc.get(which + "_dyn")
        if not how:
            continue
        k = 0
        if how is not True:
            # the bound is computed from the run-time argument: %arg + %c<k>
            if how[0] != "add" or not (0 <= how[1] < NCONST):
                raise BadRecipe("computed run-time bound")
            k = how[1]
            feats.add("bound computed from a run-time argument")
        dyn[which] = how
        sig.append(dyn_arg[which] + ": index")
        scalars.append(rc[which] - k)
        feats.add(which + "-dynamic")
    if dyn:
        feats.add("dynamic bounds: " + "+".join(dyn))
    fty =", ".join(s.split(": ", 1)[1] for s in sig)
    lines.append('"builtin.module"() ({')
    lines.append(f'"func.func"() <{{sym_name = "f", function_type = ({fty}) -> ()}}> ({{')
    lines.append("^bb0(" + ", ".join(sig) + "):")
    for k, r in enumerate(l1):
        lines.append(f'  %b{k} = "memref.alloc"() <{{operandSegmentSizes = array<i32: 0, 0>}}> {{c15.buf = "b{k}"}} : () -> {_ty_l1(r)}')
    for c in range(NCONST):
        lines.append(f'  %c{c} = "arith.constant"() <{{value = {c} : index}}> : () -> index')
    cse = rc.get("cse", [])
    bound_ssa = {}

    def bound(which):
        v = rc[which]
        if which in dyn:
            if dyn[which] is True:
                return dyn_arg[which]
            lines.append(f'  %{which} = "arith.addi"({dyn_arg[which]}, %c{dyn[which][1]}) : (index, index) -> index')
            return "%" + which
        if which in cse and 0 <= v < NCONST:
            feats.add("cse:" + which)
            return f"%c{v}"
        lines.append(f'  %{which} = "arith.constant"() <{{value = {v} : index}}> : () -> index')
        return "%" + which

    bound_ssa["lb"] = bound("lb")
    ubn = bound_ssa["ub"] = bound("ub")
    bound_ssa["step"] = bound("step")
    lbn, stepn = bound_ssa["lb"], bound_ssa["step"]

    def cref(ref):
        """constant reference outside the loop body: (ssa, value)"""
        if isinstance(ref, str):
            if ref not in bound_ssa:
                raise BadRecipe("unknown bound reference")
            return bound_ssa[ref], rc[ref]
        if not (0 <= ref < NCONST):
            raise BadRecipe("unknown constant")
        return f"%c{ref}", ref

    def outer_views(key, prefix, out):
        info = []
        for n, (bk, k, ref, r) in enumerate(rc.get(key, [])):
            if bk != "G" or not (0 <= k < nG):
                raise BadRecipe("outer view of unknown global")
            row, _ = cref(ref)
            vty = _ty_view(r, False)
            out.append(
                f'  %{prefix}{n} = "memref.subview"(%G{k}, {row}) <{{operandSegmentSizes = array<i32: 1, 1, 0, 0>, '
                f"static_offsets = array<i64: -9223372036854775808, 0>, static_sizes = array<i64: {r}, {T}>, "
                f"static_strides = array<i64: 1, 1>}}> : (memref<{GROWS}x{T}xi32>, index) -> {vty}"
            )
            info.append((f"%{prefix}{n}", vty, r))
            feats.add(key.replace("_", "-"))
        return info

    pvinfo = outer_views("pre_views", "pv", lines)
    qvinfo = []  # filled after the loop
    pre_ops = rc.get("pre", [])
    pre_at = len(lines)  # the ops before the loop are emitted once emit_op exists
    tail = rc.get("tail")
    carried = bool(tail) and tail[0] == "iter-arg"
    if carried:
        # the loop carries a counter %k (0, 1, 2, ...) that selects the source tile instead of %i
        lines.append(f'  %res = "scf.for"({lbn}, {ubn}, {stepn}, %c0) ({{')
        lines.append("  ^bb1(%i: index, %k: index):")
    else:
        lines.append(f'  "scf.for"({lbn}, {ubn}, {stepn}) ({{')
        lines.append("  ^bb1(%i: index):")

    pool = ["%i"] + [f"%c{c}" for c in range(NCONST)]

    def pref(k):
        """pool reference: position in the pool, or the SSA value of a loop bound"""
        if isinstance(k, str):
            if k not in bound_ssa:
                raise BadRecipe("unknown bound reference")
            return bound_ssa[k]
        return pool[k % len(pool)]

    body = []
    for n, (op, x, y) in enumerate(rc.get("idx", [])):
        a = pref(x)
        b = pref(y)
        if op in ("remui", "divui"):
            # never divide by zero or by a run-time value: divisor is a constant 1..4
            if isinstance(y, str):
                if y in dyn or rc[y] < 1:
                    raise BadRecipe("division by a run-time value or by zero")
            else:
                b = f"%c{1 + (y % (NCONST - 1))}"
        body.append(f'    %x{n} = "arith.{op}"({a}, {b}) : (index, index) -> index')
        pool.append(f"%x{n}")
        feats.add("idx:" + op)

    if carried:
        body.append('    %k2 = "arith.addi"(%k, %c1) : (index, index) -> index')
    vinfo = []  # (ssa, type, rows)
    for n, (bk, k, ref, r) in enumerate(rc.get("views", [])):
        row = pref(ref)
        if carried and n == 0:
            row = "%k"
        if bk == "G":
            if not (0 <= k < nG):
                raise BadRecipe("view of unknown global")
            base, bty, is_l1 = f"%G{k}", f"memref<{GROWS}x{T}xi32>", False
        else:
            if not (0 <= k < len(l1)):
                raise BadRecipe("view of unknown L1 buffer")
            R = l1[k]
            if R < r:
                raise BadRecipe("view larger than its base")
            body.append(f'    %m{n} = "arith.remui"({row}, %c{R - r + 1}) : (index, index) -> index')
            row = f"%m{n}"
            base, bty, is_l1 = f"%b{k}", _ty_l1(R), True
            feats.add("view-of-L1")
        vty = _ty_view(r, is_l1)
        body.append(
            f'    %v{n} = "memref.subview"({base}, {row}) <{{operandSegmentSizes = array<i32: 1, 1, 0, 0>, '
            f"static_offsets = array<i64: -9223372036854775808, 0>, static_sizes = array<i64: {r}, {T}>, "
            f"static_strides = array<i64: 1, 1>}}> : ({bty}, index) -> {vty}"
        )
        vinfo.append((f"%v{n}", vty, r))

    def operand(o, in_loop=True):
        kind, k = o
        if kind == "pv":
            if in_loop is True or not (0 <= k < len(pvinfo)):
                raise BadRecipe("unknown outer view")
            return pvinfo[k]
        if kind == "qv":
            if in_loop != "post" or not (0 <= k < len(qvinfo)):
                raise BadRecipe("unknown outer view")
            return qvinfo[k]
        if kind == "b":
            if not (0 <= k < len(l1)):
                raise BadRecipe("unknown L1 buffer")
            return f"%b{k}", _ty_l1(l1[k]), l1[k]
        if kind == "a":
            if not (0 <= k < len(args)):
                raise BadRecipe("unknown argument")
            return f"%a{k}", _ty_arg(args[k]), args[k]
        if kind == "v":
            if in_loop is not True or not (0 <= k < len(vinfo)):
                raise BadRecipe("unknown view")
            return vinfo[k]
        if kind == "x":
            # an index value computed in the loop body, passed as a scalar input of a linalg.generic
            if in_loop is not True:
                raise BadRecipe("index value outside the loop")
            # loop-variant (%i or computed from it: the documented K_SCALAR shape) or a constant defined outside the loop
            variant = not isinstance(k, str) and not (1 <= k % len(pool) <= NCONST)
            feats.add("op:gen-scalar-index-input" if variant else "op:gen-scalar-const-input")
            return pref(k), "index", None
        raise BadRecipe("operand kind")

    stage_tags = {}

    def emit_op(op, tag, out, in_loop=True):
        if op[0] == "copy":
            (s, ts, rs), (d, td, rd) = operand(op[1], in_loop), operand(op[2], in_loop)
            if rs != rd:
                raise BadRecipe("copy between different tile sizes")
            out.append(f'    "memref.copy"({s}, {d}) {{c15.tag = "{tag}"}} : ({ts}, {td}) -> ()')
            feats.add("op:copy")
            return
        ins = [operand(o, in_loop) for o in op[1]]
        outs = [operand(o, in_loop) for o in op[2]]
        if not ins or not outs:
            raise BadRecipe("compute op needs inputs and outputs")
        if len({r for (_, _, r) in ins + outs if r is not None}) != 1 or any(r is None for (_, _, r) in outs) \
                or ins[0][2] is None or (op[0] != "gen" and any(r is None for (_, _, r) in ins)):
            raise BadRecipe("compute op on different tile sizes / scalar operand in a wrong place")
        names = ", ".join(n for (n, _, _) in ins + outs)
        tys = ", ".join(t for (_, t, _) in ins + outs)
        if op[0] == "gen":
            rw = bool(op[3]) if len(op) > 3 else False
            n = len(ins) + len(outs)
            maps = ", ".join("affine_map<(d0, d1) -> ()>" if r_ is None else "affine_map<(d0, d1) -> (d0, d1)>"
                             for (_, _, r_) in ins + outs)
            bargs = ", ".join(f"%{tag}x{j}: " + ("index" if r_ is None else "i32") for j, (_, _, r_) in enumerate(ins + outs))
            reg =[f"    ^bb0({bargs}):"]
            ys = []
            for j in range(len(outs)):
                if rw:
                    reg.append(f'      %{tag}y{j} = "arith.addi"(%{tag}x0, %{tag}x{len(ins) + j}) : (i32, i32) -> i32')
                    ys.append(f"%{tag}y{j}")
                else:
                    ys.append(f"%{tag}x0")
            reg.append(f'      "linalg.yield"({", ".join(ys)}) : ({", ".join(["i32"] * len(ys))}) -> ()')
            attrs = f'c15.tag = "{tag}"' + (", c15.rw" if rw else "")
            out.append(
                f'    "linalg.generic"({names}) <{{indexing_maps = [{maps}], iterator_types = [#linalg.iterator_type<parallel>, '
                f'#linalg.iterator_type<parallel>], library_call = "{tag}", operandSegmentSizes = array<i32: {len(ins)}, {len(outs)}>}}> ({{'
            )
            out.extend(reg)
            out.append(f"    }}) {{{attrs}}} : ({tys}) -> ()")
            feats.add("op:gen-rw" if rw else "op:gen")
            return
        if op[0] == "dart":
            out.append(
                f'    "dart.operation"({names}) <{{patterns = [], operandSegmentSizes = array<i32: {len(ins)}, {len(outs)}>}}> ({{'
            )
            out.append('      "dart.yield"() : () -> ()')
            out.append(f'    }}) {{c15.tag = "{tag}"}} : ({tys}) -> ()')
            feats.add("op:dart")
            return
        raise BadRecipe("op kind")

    stages = rc["stages"]
    if len(stages) != S:
        raise BadRecipe("stage count")
    MID = '    %tl = "arith.addi"(%i, %c1) {c15.tail} : (index, index) -> index'
    for s, ops in enumerate(stages):
        if not ops:
            raise BadRecipe("empty stage")
        if tail and tail[0] == "mid-index" and tail[1] == s and tail[2] == "before":
            body.append(MID)  # an index computation after the barrier of stage s-1, before the ops of stage s
        for k, op in enumerate(ops):
            tag = f"s{s}o{k}"
            stage_tags[tag] = s
            emit_op(op, tag, body)
        if tail and tail[0] == "mid-index" and tail[1] == s and tail[2] == "after":
            body.append(MID)  # ... between the ops of stage s and its barrier
        if tail and tail[0] == "no-last-sync" and s == S - 1:
            continue
        body.append('    "snax.cluster_sync_op"() : () -> ()')
        if tail and tail[0] == "double-sync" and tail[1] == s:
            body.append('    "snax.cluster_sync_op"() : () -> ()')
    if tail and tail[0] == "trailing-op":
        # a stage op after the last barrier
        stage_tags["tl"] = S
        emit_op(tail[1], "tl", body)
    if tail:
        feats.add("tail:" + tail[0])
    lines.extend(body)
    if carried:
        lines.append('    "scf.yield"(%k2) : (index) -> ()')
        lines.append("  }) : (index, index, index, index) -> index")
    else:
        lines.append('    "scf.yield"() : () -> ()')
        lines.append("  }) : (index, index, index) -> ()")
    if pre_ops:
        pre = []
        for k, op in enumerate(pre_ops):
            emit_op(op, f"pre{k}", pre, in_loop="pre")
        feats.add("pre-op")
        # the loop starts in a fresh epoch: the ops before it are complete
        pre.append('    "snax.cluster_sync_op"() : () -> ()')
        lines[pre_at:pre_at] = [l[2:] for l in pre]
    qvinfo.extend(outer_views("post_views", "qv", lines))
    post = []
    for k, op in enumerate(rc.get("post", [])):
        emit_op(op, f"post{k}", post, in_loop="post")
        feats.add("post-op")
    lines.extend(l[2:] for l in post)
    l2 = rc.get("loop2")
    if l2:
        (lb2, _), (ub2, _), (st2, st2v) = cref(l2["lb"]), cref(l2["ub"]), cref(l2["step"])
        if st2v < 1:
            raise BadRecipe("second loop with a non-positive step")
        if not (0 <= l2["src"] < nG and 0 <= l2["dst"] < nG):
            raise BadRecipe("second loop on an unknown global")
        gty = f"memref<{GROWS}x{T}xi32>"
        vty = _ty_view(1, False)
        sub = ('<{operandSegmentSizes = array<i32: 1, 1, 0, 0>, static_offsets = array<i64: -9223372036854775808, 0>, '
               f"static_sizes = array<i64: 1, {T}>, static_strides = array<i64: 1, 1>}}> : ({gty}, index) -> {vty}")
        lines.append(f'  "scf.for"({lb2}, {ub2}, {st2}) ({{')
        lines.append("  ^bb2(%j: index):")
        drow = "%j"
        if l2.get("off") is not None:
            lines.append(f'    %jo = "arith.addi"(%j, {cref(l2["off"])[0]}) : (index, index) -> index')
            drow = "%jo"
        lines.append(f'    %w0 = "memref.subview"(%G{l2["src"]}, %j) {sub}')
        lines.append(f'    %w1 = "memref.subview"(%G{l2["dst"]}, {drow}) {sub}')
        lines.append(f'    "memref.copy"(%w0, %w1) {{c15.tag = "l2o0"}} : ({vty}, {vty}) -> ()')
        lines.append('    "scf.yield"() : () -> ()')
        lines.append("  }) : (index, index, index) -> ()")
        feats.add("second-loop")
    lines.append('  "func.return"() : () -> ()')
    lines.append("}) : () -> ()")
    lines.append("}) : () -> ()")
    return Built("\n".join(lines), arg_specs, scalars, feats, stage_tags)


# ------------------------------------------------------------------------------------ strategies

LBSTEP = [(0, 1)] * 10 + [(0, 2), (0, 3), (0, 2), (1, 1), (2, 1), (3, 2), (-1, 1), (-2, 1), (-3, 2)]


@st.composite
def bounds(draw, S, max_trip=6, dyn=()):
    # a run-time lb >= ub, mostly with an ub that alone looks pipelinable (>= stages-1)
    zero = "lb" in dyn and draw(st.integers(0, 4)) == 0
    if "lb" in dyn or "step" in dyn:
        # run-time values that make a difference (lb != 0, step != 1); the bounds that stay constant are mostly the
        # canonical ones, so that only the run-time bound keeps the loop from being pipelinable
        lb = draw(st.sampled_from([5, 3, 5, 2, 1] if zero else [1, 2, 3, 0, 1, 2, 5, -1, -2] if "lb" in dyn else [0, 0, 0, 1, -1]))
        step = draw(st.sampled_from([2, 3, 1, 2] if "step" in dyn else [1, 1, 1, 2]))
    else:
        lb, step = draw(st.sampled_from(LBSTEP))
        if draw(st.integers(0, 7)) == 0:
            # a short (or empty) loop at a positive lower bound whose upper bound alone looks pipelinable (ub >= stages-1)
            lb = draw(st.integers(S - 1, S + 3))
            return lb, lb + draw(st.integers(0, max(0, S - 2))), 1
    if lb < 0 and draw(st.integers(0, 2)) > 0:
        # a negative lower bound with an upper bound that alone looks pipelinable (ub >= stages-1): i = lb .. -1, 0 .. ub-1
        return lb, draw(st.integers(S - 1, max(S - 1, max_trip - 2))), step
    # bulk: trip counts >= S-1 (the range the passes are written for); below S-1 is the documented-defect range
    trip = draw(st.one_of(st.integers(S - 1, max_trip), st.integers(S - 1, max_trip), st.integers(S - 1, max_trip),
                          st.integers(0, max_trip), st.sampled_from([S - 1, S, S + 1])))
    if zero:
        trip = 0
    if trip == 0:
        ub = lb - draw(st.integers(0, 2 if "lb" in dyn else 1))
    else:
        # ub not a multiple of step also occurs (same trip count)
        ub = lb + (trip - 1) * step + 1 + draw(st.integers(0, step - 1))
    # (a negative ub occurs: zero-trip loops from lb <= 1, and short loops from a negative lb)
    return lb, ub, step


def _op_pool(l1, args, views, r):
    pool = [["b", k] for k, R in enumerate(l1) if R == r]
    pool += [["a", k] for k, R in enumerate(args) if R == r]
    pool += [["v", k] for k, v in enumerate(views) if v[3] == r]
    return pool


@st.composite
def loop_recipe(draw, tier="quick"):
    def rare(k):
        # true with probability 1/(k+1); the *simplest* draw (0) is the common case, so Hypothesis' bias towards
        # small values produces the accepted shape rather than the exotic one
        return draw(st.integers(0, k)) == k

    S = draw(st.sampled_from([3, 2, 4, 3]))
    # run-time bounds (index function arguments, or argument + constant): every combination
    dyn = []
    if draw(st.integers(0, 3)) == 3:
        dyn = draw(st.sampled_from([["lb"], ["lb"], ["ub"], ["step"], ["lb", "ub"], ["lb", "step"], ["ub", "step"],
                                    ["lb", "ub", "step"]]))
    lb, ub, step = draw(bounds(S, 6 if tier == "quick" else 8, dyn))
    r = draw(st.sampled_from([1, 1, 1, 2]))
    # how strictly operands follow the producer(stage s) -> consumer(stage s+1) chain, in percent
    p_chain = draw(st.sampled_from([100, 100, 97, 90, 60]))
    nG = 3
    # index arithmetic: a few expressions of %i
    n_idx = draw(st.integers(0, 3))
    idx = []
    base = 0  # pool position of the value tiles are addressed by
    if lb < 0:
        # negative induction values: tiles are addressed by %i + %c<-lb> >= 0 (a negative row is outside every buffer)
        idx.append(["addi", 0, 1 - lb])
        base = 1 + NCONST
    for _ in range(n_idx):
        op = draw(st.sampled_from(IDX_OPS))
        # mostly %i (the shifted %i when lb < 0) or an earlier result
        x = draw(st.sampled_from([base] * 3 + ([6, 7, 8] if base == 0 else list(range(base, base + len(idx))))))
        y = draw(st.integers(1, 4)) if op != "subi" else draw(st.sampled_from([1, 1, 2]))
        idx.append([op, x, y])
    n_idx = len(idx)
    npool = 1 + NCONST + n_idx
    # L1: chain buffers b0..b(S-2) of r rows, optional extra whole buffers and a tiled buffer
    l1 = [r] * (S - 1)
    l1 += [r] * draw(st.integers(0, 2))
    tiled = None
    if rare(3):
        tiled = len(l1)
        l1.append(draw(st.sampled_from([2 * r, 4])))
    args = [r] * draw(st.integers(0, 2))

    def iref():
        # reference to %i-dependent values first; constants sometimes
        return draw(st.sampled_from([base, base, base] + list(range(1 + NCONST, npool)) * 2 + [1, 2, 3]))

    # view 0 / 1: the default source / sink tiles G0[f(i)], G1[g(i)]; further tiles of any global or of the tiled L1 buffer
    views = []
    nv = draw(st.integers(2, 6))
    for n in range(nv):
        if n >= 2 and tiled is not None and rare(2):
            views.append(["B", tiled, iref(), r])
        elif n < 2:
            views.append(["G", n, draw(st.sampled_from([base] * 4 + list(range(1 + NCONST, npool)))), r])
        else:
            # mostly the third global (independent of source and sink), sometimes aliasing them
            views.append(["G", draw(st.sampled_from([2, 2, 2, 0, 1])), iref(), r])
    pool = _op_pool(l1, args, views, r)
    # operands that are not part of the stage-to-stage chain (extra L1 buffers, arguments, tiles)
    side = [o for o in pool if not (o[0] == "b" and o[1] < S - 1)]
    side_ro = [o for o in side if not (o[0] == "v" and o[1] < 2)] or side

    used: list = []  # operands already used in the current stage (a second use in one stage is mostly refused by the passes)
    used_all: list = [["v", 0], ["v", 1]]

    def pick(default, among=None):
        o = _pick(default, among)
        used.append(o)
        used_all.append(o)
        return o

    def _pick(default, among):
        if default is not None and draw(st.integers(0, 99)) < p_chain:
            return default
        if among is not None and not rare(4):
            fresh = [o for o in among if o not in used_all] or [o for o in among if o not in used]
            if fresh and not rare(5):
                return draw(st.sampled_from(fresh))
            return draw(st.sampled_from(among))
        if not rare(4):
            return draw(st.sampled_from(side))
        return draw(st.sampled_from(pool))

    stages = []
    for s in range(S):
        kinds = ["gen", "copy", "gen"] + (["dart"] if s > 0 else [])
        if s == 0 or s == S - 1:
            kinds = ["copy", "copy"] + kinds
        kind = draw(st.sampled_from(kinds))
        used.clear()
        src_default = ["v", 0] if s == 0 else ["b", s - 1]
        dst_default = ["v", 1] if s == S - 1 else ["b", s]
        ops = []
        if kind == "copy":
            ops.append(["copy", pick(src_default), pick(dst_default)])
        else:
            ins = [pick(src_default)]
            if rare(3):
                ins.append(pick(None, side_ro))  # a second, read-only input (weights)
            if kind == "gen" and VARIANTS["scalar"] and rare(29):
                ins.append(["x", draw(st.sampled_from([0] + list(range(1 + NCONST, npool))))])  # index-dependent scalar
            outs = [pick(dst_default)]
            if rare(6):
                outs.append(pick(None, side_ro))
            if kind == "gen":
                ops.append(["gen", ins, outs, VARIANTS["rw"] and rare(11)])
            else:
                ops.append(["dart", ins, outs])
        if rare(3):
            # a second op in the stage, on its own operands most of the time
            if draw(st.booleans()):
                ops.append(["copy", pick(None, side_ro), pick(None, side_ro)])
            else:
                ops.append(["gen", [pick(None, side_ro)], [pick(None, side_ro)], False])
            if draw(st.booleans()):
                ops.reverse()
            if ops[0][0] == "dart" and s == 0:
                ops.reverse()
        stages.append(ops)
    post = []
    if VARIANTS["post"] and rare(9):
        srcs = [o for o in pool if o[0] == "b"]
        dsts = [o for o in pool if o[0] == "a"]
        if srcs and dsts:
            post.append(["copy", draw(st.sampled_from(srcs)), draw(st.sampled_from(dsts))])
    # lb != 0 or step != 1: mostly canonicalised first as in the real pipeline, sometimes handed to construct-pipeline as it is
    canon = (draw(st.integers(0, 3)) > 0) if (lb, step) != (0, 1) else draw(st.booleans())
    if lb > 0 and step == 1 and 0 <= ub - lb < S - 1 <= ub and not dyn:
        canon = draw(st.booleans())
    rc = dict(S=S, lb=lb, ub=ub, step=step, ub_dyn=False, canon=canon, nG=nG, args=args, l1=l1, idx=idx, views=views,
              stages=stages, post=post)
    for w in dyn:
        # mostly the argument itself, sometimes a value computed from it (argument + %c<k>; the argument may be negative)
        rc[w + "_dyn"] = True if not rare(3) else ["add", draw(st.integers(0, NCONST - 1))]
    if draw(st.integers(0, 4)) >= 2:
        _share_bounds(draw, rc, r)
    return rc


def _share_bounds(draw, rc, r):
    """Give the SSA values the loop uses as lb / ub / step other users (as CSE'd MLIR has them): the pool constant of the same
    value becomes the bound ("cse"), index computations / view offsets / a scalar stage operand in the body refer to it, ops
    before and after the loop and a second plain loop are indexed / bounded by it."""
    def rare(k):
        return draw(st.integers(0, k)) == k

    def which():
        # the lower bound first: it is the one unroll-pipeline replaces
        return draw(st.sampled_from(["lb", "lb", "lb", "ub", "step"]))

    def cref():
        # a value used as the row of a tile outside the loop / the start of the second loop: not a negative one
        w = which() if not rare(3) else draw(st.integers(0, NCONST - 1))
        return draw(st.integers(0, NCONST - 1)) if isinstance(w, str) and rc[w] < 0 else w

    cse = [w for w in ("lb", "ub", "step") if draw(st.integers(0, 3)) >= (1 if w == "lb" else 2)]
    if cse:
        rc["cse"] = cse
    # with a negative lb, idx[0] is the shift %i + %c<-lb> that tiles are addressed by: it stays as it is
    shift = 1 if rc["lb"] < 0 else 0
    base = 1 + NCONST if shift else 0
    # (a) users in the loop body
    for _ in range(draw(st.integers(0, 2))):
        w = which()
        # the pool position of the constant of that value (shared iff "cse"), or the bound's SSA value itself
        ref = 1 + rc[w] if (w in cse and 0 <= rc[w] < NCONST and not rc.get(w + "_dyn")) else w
        k = draw(st.integers(0, 3))
        if k == 0 and rc["idx"][shift:]:
            e = draw(st.sampled_from(rc["idx"][shift:]))
            if e[0] not in ("remui", "divui"):
                e[2] = ref
        elif k == 1:
            # the row of a tile (not of the default source / sink tiles, whose rows should depend on %i)
            cand = [v for v in rc["views"][2:] if v[0] == "G"]
            if cand and rc[w] >= 0:
                draw(st.sampled_from(cand))[2] = ref
        elif k == 2:
            gens = [op for ops in rc["stages"] for op in ops if op[0] == "gen" and not any(o[0] == "x" for o in op[1])]
            if gens:
                draw(st.sampled_from(gens))[1].append(["x", ref])
        else:
            # a new index computation %i (+|-|*) bound, used as the row of a tile when there is a free one
            rc["idx"].append([draw(st.sampled_from(["addi", "addi", "subi", "muli"])), base, ref])
            cand = [v for v in rc["views"][2:] if v[0] == "G"]
            if cand and not rare(2):
                draw(st.sampled_from(cand))[2] = NCONST + len(rc["idx"])
    outer = [2, 2, 2, 0, 1]
    # (c) ops before the loop
    if rare(3):
        rc["pre_views"] = [["G", draw(st.sampled_from(outer)), cref(), r], ["G", draw(st.sampled_from(outer)), cref(), r]]
        dsts = [["pv", 1]] + [["a", k] for k in range(len(rc["args"]))] + [["b", k] for k in range(len(rc["l1"])) if rc["l1"][k] == r]
        rc["pre"] = [["copy", ["pv", 0], draw(st.sampled_from(dsts))]]
    # (b) ops after the loop: a tagged copy / compute op on tiles indexed by the value, a second loop bounded by it
    if rare(2):
        rc["post_views"] = [["G", draw(st.sampled_from(outer)), cref(), r], ["G", draw(st.sampled_from(outer)), cref(), r]]
        src, dst = ["qv", 0], ["qv", 1]
        if rc.get("pre_views") and rare(2):
            src = ["pv", draw(st.integers(0, 1))]
        rc["post"] = rc["post"] + [["copy", src, dst] if not rare(3) else ["gen", [src], [dst], False]]
    if rare(2):
        rc["loop2"] = dict(lb=cref() if not rare(2) or rc["lb"] < 0 else "lb", ub=draw(st.sampled_from(["ub", "ub", 2, 3, 4])),
                           step=draw(st.sampled_from(["step", "step", 1, 2])), src=draw(st.sampled_from(outer)),
                           dst=draw(st.sampled_from(outer)), off=None if not rare(2) else cref())


@st.composite
def shape_recipe(draw, tier="quick"):
    """a plain producer/consumer chain (always accepted when well-formed) with one deviation from the recognised shape"""
    S = draw(st.sampled_from([3, 2, 4]))
    trip = draw(st.integers(S - 1, 6))
    kinds = [draw(st.sampled_from(["copy", "gen"])) for _ in range(S)]
    views = [["G", 0, 0, 1], ["G", 1, 0, 1], ["G", 2, 0, 1]]
    stages = []
    for s in range(S):
        src = ["v", 0] if s == 0 else ["b", s - 1]
        dst = ["v", 1] if s == S - 1 else ["b", s]
        stages.append([["copy", src, dst]] if kinds[s] == "copy" else [["gen", [src], [dst], False]])
    k = draw(st.sampled_from(["mid-index", "mid-index", "mid-index", "double-sync", "no-last-sync", "trailing-op", "iter-arg"]))
    if k == "mid-index":
        tail = [k, draw(st.integers(0, S - 1)), draw(st.sampled_from(["before", "after"]))]
    elif k == "double-sync":
        tail = [k, draw(st.integers(0, S - 1))]
    elif k == "trailing-op":
        tail = [k, ["copy", ["v", 0], ["v", 2]]]
    else:
        tail = [k]
    rc = dict(S=S, lb=0, ub=trip, step=1, ub_dyn=False, canon=False, nG=3, args=[], l1=[1] * (S - 1), idx=[], views=views,
              stages=stages, post=[], tail=tail)
    if draw(st.booleans()):
        # the bounds are the shared constants %c0 / %c<ub> / %c1 (the iter_args init, the deviating index op use them too)
        rc["cse"] = draw(st.sampled_from([["lb"], ["lb", "step"], ["lb", "ub", "step"], ["step"]]))
        if draw(st.booleans()):
            rc["post_views"] = [["G", 2, "lb", 1], ["G", 2, draw(st.sampled_from(["ub", "step", 3])), 1]]
            rc["post"] = [["copy", ["qv", 0], ["qv", 1]]]
    return rc


# ------------------------------------------------------------------------------------ finite grid

def grid_recipe(S, kinds, assign, trips):
    """One op per stage, one input and one output each. assign[s] = (in choice, out choice):
    choice -1 = a view of a global at row %i (input: G0, output: G1+s), choice k >= 0 = L1 buffer b<k>."""
    views = [["G", 0, 0, 1]] + [["G", 1 + (s % 2), 0, 1] for s in range(S)]
    # distinct output tiles per stage: G1/G2 rows i (stage parity keeps two writers apart by using different globals when possible)
    stages = []
    for s in range(S):
        i_c, o_c = assign[s]
        src = ["v", 0] if i_c < 0 else ["b", i_c]
        dst = ["v", 1 + s] if o_c < 0 else ["b", o_c]
        if kinds[s] == "copy":
            stages.append([["copy", src, dst]])
        else:
            stages.append([["gen", [src], [dst], False]])
    return dict(S=S, lb=0, ub=0, step=1, ub_dyn=False, canon=False, nG=3, args=[], l1=[1] * (S - 1), idx=[], views=views,
                stages=stages, post=[], trips=list(trips))


def grid(tier):
    import itertools

    max_trip = 8
    trips = list(range(0, max_trip + 1))
    for S in (2, 3, 4):
        nb = S - 1
        if S < 4:
            choices = [list(itertools.product(range(-1, nb), repeat=2)) for _ in range(S)]
        else:
            # stage s may only use its neighbouring chain buffers b(s-1), b(s) (the full 4^8 space is mostly rejections)
            choices = []
            for s in range(S):
                loc = [-1] + [k for k in (s - 1, s) if 0 <= k < nb]
                choices.append(list(itertools.product(loc, repeat=2)))
        patterns = [tuple("copy" if (s % 2 == 0) else "gen" for s in range(S)), tuple(["gen"] * S), tuple(["copy"] * S)]
        if tier == "quick":
            patterns = patterns[:1]
            if S == 4:
                continue
        for kinds in patterns:
            for assign in itertools.product(*choices):
                yield grid_recipe(S, kinds, [list(a) for a in assign], trips)
