"""Hypothesis strategies (JSON recipes) and MLIR text builders for C18."""
from __future__ import annotations

import itertools

from hypothesis import strategies as st

WIDTHS = (8, 16, 32, 64)
BIN = ("addi", "muli", "subi")
KINDS = ("addi", "muli", "subi", "extsi")

# Bias tables only (what the generator aims at). The oracle never uses them to decide anything:
# canonicity and kernel semantics are always read from the real kernel classes.
KSEQ = {
    "mul": (3, ("muli",)),
    "add": (3, ("addi",)),
    "mac": (3, ("muli", "addi")),
    "mac_ext": (3, ("extsi", "extsi", "muli", "addi")),
    "qmac": (5, ("extsi", "subi", "extsi", "subi", "muli", "addi")),
}
KERNEL_OPERANDS = {"mul": 2, "add": 2, "mac": 2, "qmac": 4}


def ty(w):
    return f"i{w}"


def canonical_body(key, T, A=None, B=None):
    """(arg widths, ops, yield ref) mirroring the kernel's equivalent region (bias only)."""
    if key == "mul":
        return [T, T, T], [["muli", [0, 1], T]], 3
    if key == "add":
        return [T, T, T], [["addi", [0, 1], T]], 3
    if key == "mac":
        return [T, T, T], [["muli", [0, 1], T], ["addi", [2, 3], T]], 4
    if key == "mac_ext":
        return [A, B, T], [["extsi", [0], T], ["extsi", [1], T], ["muli", [3, 4], T], ["addi", [2, 5], T]], 6
    if key == "qmac":
        return [A, B, T, T, T], [["extsi", [0], T], ["subi", [5, 2], T], ["extsi", [1], T], ["subi", [7, 3], T],
                                 ["muli", [6, 8], T], ["addi", [4, 9], T]], 10
    raise AssertionError(key)


# ------------------------------------------------------------------------------------------ input values


def value_st(w):
    lo, hi = -(1 << (w - 1)), (1 << (w - 1)) - 1
    return st.integers(lo, hi) | st.sampled_from([lo, lo + 1, -129, -128, -1, 1, 127, 128, hi - 1, hi]).map(lambda v: max(lo, min(hi, v)))


def vectors_st(widths, n):
    return st.lists(st.tuples(*[value_st(w) for w in widths]).map(list), min_size=n, max_size=n)


# ------------------------------------------------------------------------------------------ sub 1: linalg bodies


def _wire(draw, argw, kinds):
    """Random type-correct wiring of the op-kind sequence over block args of widths argw (last = output)."""
    vals = list(argw)
    ops = []
    outw = argw[-1]
    for k in kinds:
        if k == "extsi":
            cands = [i for i, w in enumerate(vals) if w < 64]
            if not cands:
                return None
            src = draw(st.sampled_from(cands))
            tws = [w for w in WIDTHS if w > vals[src]]
            tw = outw if (outw in tws and draw(st.integers(0, 2)) > 0) else draw(st.sampled_from(tws))
            ops.append([k, [src], tw])
            vals.append(tw)
        else:
            n = len(vals)
            a = n - 1 if (n > len(argw) and draw(st.integers(0, 2)) == 0) else draw(st.integers(0, n - 1))
            same = [i for i, w in enumerate(vals) if w == vals[a]]
            b = draw(st.sampled_from(same))
            if draw(st.booleans()):
                a, b = b, a
            ops.append([k, [a, b], vals[a]])
            vals.append(vals[a])
    cands = [i for i, w in enumerate(vals) if w == outw]
    y = cands[-1] if draw(st.integers(0, 9)) < 6 else draw(st.sampled_from(cands))
    return ops, y


def _argw_pattern(draw, n, need_narrow):
    p = draw(st.integers(0, 9))
    if p < 4:
        t = draw(st.sampled_from(WIDTHS[:3] if need_narrow else WIDTHS))
        argw = [t] * n
        if need_narrow:
            # narrow data inputs, wide rest (the shape mixed-width kernels have)
            T = draw(st.sampled_from([w for w in WIDTHS if w > t]))
            k = draw(st.integers(1, max(1, min(2, n - 1))))
            argw = [t] * k + [T] * (n - k)
    elif p < 7:
        T = draw(st.sampled_from(WIDTHS[1:]))
        argw = [draw(st.sampled_from([w for w in WIDTHS if w <= T])) for _ in range(n - 1)] + [T]
    else:
        argw = [draw(st.sampled_from(WIDTHS)) for _ in range(n)]
    if need_narrow and all(w == 64 for w in argw):
        argw[0] = 8
    return argw


def _mutate(draw, argw, ops, y):
    """One type-preserving rewiring of a body."""
    n0 = len(argw)
    widths = list(argw) + [o[2] for o in ops]
    choices = []
    for oi, (k, refs, w) in enumerate(ops):
        lim = n0 + oi
        if k != "extsi":
            if refs[0] != refs[1]:
                # operand swaps are weighted up: they are the rewiring that an order-insensitive matcher would let through
                # (harmless for addi/muli, function-changing for subi)
                choices.extend([("swap", oi, None, None)] * (8 if k == "subi" else 3))
            for pos in (0, 1):
                for c in range(lim):
                    if c != refs[pos] and widths[c] == w:
                        choices.append(("rewire", oi, pos, c))
        else:
            for c in range(lim):
                if c != refs[0] and widths[c] < w:
                    choices.append(("rewire", oi, 0, c))
    for c in range(len(widths)):
        if c != y and widths[c] == argw[-1]:
            choices.append(("yield", None, None, c))
    if not choices:
        return ops, y
    kind, oi, pos, c = draw(st.sampled_from(choices))
    ops = [[k, list(r), w] for k, r, w in ops]
    if kind == "swap":
        ops[oi][1] = ops[oi][1][::-1]
    elif kind == "rewire":
        ops[oi][1][pos] = c
    else:
        y = c
    return ops, y


def _canon_types(draw, key):
    if key in ("mul", "add", "mac"):
        return dict(T=draw(st.sampled_from(WIDTHS)))
    T = draw(st.sampled_from(WIDTHS[1:]))
    nar = [w for w in WIDTHS if w < T]
    return dict(T=T, A=draw(st.sampled_from(nar)), B=draw(st.sampled_from(nar)))


@st.composite
def l2k_recipe(draw, tier="quick"):
    mode = draw(st.sampled_from(["canonical", "near", "near", "near", "seq", "seq", "seq", "free", "free", "free", "free", "free"]))
    key = None
    if mode in ("canonical", "near"):
        key = draw(st.sampled_from(list(KSEQ)))
        argw, ops, y = canonical_body(key, **_canon_types(draw, key))
        if mode == "near":
            for _ in range(draw(st.sampled_from([1, 1, 1, 2, 3]))):
                ops, y = _mutate(draw, argw, ops, y)
    else:
        if mode == "seq":
            key = draw(st.sampled_from(list(KSEQ)))
            n, kinds = KSEQ[key]
        else:
            n = draw(st.sampled_from([2, 3, 3, 3, 3, 4, 5, 5, 6]))
            kinds = draw(st.lists(st.sampled_from(KINDS), min_size=1, max_size=6))
        argw = _argw_pattern(draw, n, need_narrow="extsi" in kinds)
        wired = _wire(draw, argw, kinds)
        if wired is None:  # no value narrower than i64 for an extsi: drop the extsi ops
            kinds = [k for k in kinds if k != "extsi"] or ["addi"]
            wired = _wire(draw, argw, kinds)
            mode = "free"
        ops, y = wired
    vecs = draw(vectors_st(argw, 4))
    vseed = draw(st.integers(0, (1 << 64) - 1))
    return dict(args=[ty(w) for w in argw], ops=[[k, r, ty(w)] for k, r, w in ops], **{"yield": y}, vecs=vecs, vseed=vseed,
                mode=mode + (":" + key if key else ""))


def l2k_exhaustive(tier):
    """All bodies of <= 2 ops from {addi, muli, subi} over 3 arguments at one width, any wiring, any yielded value
    (quick: i8; thorough: all four widths, plus all 3-op bodies at i8 that yield their last op)."""
    plan = [(8, 2)] if tier != "thorough" else [(8, 3), (16, 2), (32, 2), (64, 2)]
    for w, maxops in plan:
        for nops in range(1, maxops + 1):
            spaces = []
            for i in range(nops):
                nv = 3 + i
                spaces.append([(k, a, b) for k in BIN for a in range(nv) for b in range(nv)])
            for combo in itertools.product(*spaces):
                ops = [[k, [a, b], ty(w)] for k, a, b in combo]
                for y in (range(3 + nops) if nops < 3 else [2 + nops]):
                    yield dict(args=[ty(w)] * 3, ops=ops, **{"yield": y}, vecs=[], vseed=nops * 1000 + y, mode="exhaustive")


def width_of(t: str) -> int:
    assert t[0] == "i" and t[1:].isdigit(), t
    return int(t[1:])


def _generic_text(argtys, body_lines, shape="4", extra_attr="", in_func=False):
    """A module with one linalg.generic over 1-D memrefs whose element types are the block argument types."""
    n = len(argtys)
    mts = [f"memref<{shape}x{t}>" for t in argtys]
    maps = ", ".join(["affine_map<(d0) -> (d0)>"] * n)
    ins_v = ", ".join(f"%m{i}" for i in range(n - 1))
    ins_t = ", ".join(mts[:-1])
    bargs = ", ".join(f"%a{i} : {t}" for i, t in enumerate(argtys))
    ins = f"ins({ins_v} : {ins_t}) " if n > 1 else ""
    gen = (f'linalg.generic {{indexing_maps = [{maps}], iterator_types = ["parallel"]{extra_attr}}} '
           f"{ins}outs(%m{n - 1} : {mts[-1]}) {{\n^bb0({bargs}):\n" + "\n".join("  " + l for l in body_lines) + "\n}")
    if in_func:
        fargs = ", ".join(f"%m{i} : {t}" for i, t in enumerate(mts))
        return f"builtin.module {{\nfunc.func public @f({fargs}) {{\n{gen}\nfunc.return\n}}\n}}"
    defs = ", ".join(f"%m{i}" for i in range(n))
    return f'builtin.module {{\n{defs} = "test.op"() : () -> ({", ".join(mts)})\n{gen}\n}}'


def l2k_text(r):
    argtys = r["args"]
    n = len(argtys)
    names = [f"%a{i}" for i in range(n)]
    tys = list(argtys)
    lines = []
    for k, refs, t in r["ops"]:
        v = f"%v{len(names)}"
        if k == "extsi":
            lines.append(f"{v} = arith.extsi {names[refs[0]]} : {tys[refs[0]]} to {t}")
        else:
            lines.append(f"{v} = arith.{k} {names[refs[0]]}, {names[refs[1]]} : {t}")
        names.append(v)
        tys.append(t)
    lines.append(f"linalg.yield {names[r['yield']]} : {tys[r['yield']]}")
    return _generic_text(argtys, lines)


# ------------------------------------------------------------------------------------------ sub 2: kernel ops


def accepted_combos():
    """(kernel, operand widths + result width) for which the kernel's equivalent region is well typed (bias only)."""
    out = []
    for T in WIDTHS:
        out += [("mul", [T, T, T]), ("add", [T, T, T]), ("mac", [T, T, T])]
        nar = [w for w in WIDTHS if w < T]
        for A in nar:
            for B in nar:
                out.append(("mac", [A, B, T]))
                out.append(("qmac", [A, B, T, T, T]))
    return out


def kernel_line(kernel, tys, operand_names, res="%k"):
    if kernel == "qmac":
        a, b, c, d = operand_names
        return (f"{res} = kernel.qmac {a}, {b} zp_lhs : {c} zp_rhs : {d} : "
                f"{tys[0]}, {tys[1]}, {tys[2]}, {tys[3]} -> {tys[4]}")
    a, b = operand_names
    return f"{res} = kernel.{kernel} {a}, {b} : {tys[0]}, {tys[1]} -> {tys[2]}"


def k2l_text(r):
    tys = r["types"]
    names = [f"%a{i}" for i in r["wiring"]]
    lines = [kernel_line(r["kernel"], tys, names), f"linalg.yield %k : {tys[-1]}"]
    return _generic_text(tys, lines)


def _wirings(widths, k):
    """All type-consistent choices of block arguments for the k kernel operands."""
    per = [[i for i, w in enumerate(widths) if w == widths[j]] for j in range(k)]
    return [list(c) for c in itertools.product(*per)]


@st.composite
def k2l_recipe(draw, tier="quick"):
    if draw(st.integers(0, 9)) < 8:
        kernel, widths = draw(st.sampled_from(accepted_combos()))
    else:
        kernel = draw(st.sampled_from(list(KERNEL_OPERANDS)))
        widths = [draw(st.sampled_from(WIDTHS)) for _ in range(KERNEL_OPERANDS[kernel] + 1)]
    k = KERNEL_OPERANDS[kernel]
    wiring = list(range(k))
    if draw(st.integers(0, 3)) == 0:
        wiring = draw(st.sampled_from(_wirings(widths, k)))
    return dict(kernel=kernel, types=[ty(w) for w in widths], wiring=wiring, vecs=draw(vectors_st(widths, 4)),
                vseed=draw(st.integers(0, (1 << 64) - 1)))


def k2l_exhaustive(tier):
    """Every kernel with every width combination (those without a well-typed definition are classified 'outside'),
    operands = block arguments in order."""
    for kernel, k in KERNEL_OPERANDS.items():
        for widths in itertools.product(WIDTHS, repeat=k + 1):
            yield dict(kernel=kernel, types=[ty(w) for w in widths], wiring=list(range(k)), vecs=[], vseed=7)


# ------------------------------------------------------------------------------------------ sub 3: rescale

I32 = (-(1 << 31), (1 << 31) - 1)


def rescale_attrs(r):
    mult = ", ".join(str(m) for m in r["mult"])
    shift = ", ".join(str(s) for s in r["shift"])
    return (f"{{input_zp = {r['zp_in']} : i32, output_zp = {r['zp_out']} : i32, multiplier = array<i32: {mult}>, "
            f"shift = array<{r.get('shift_ty', 'i32')}: {shift}>, min_int = {r['min']} : i32, max_int = {r['max']} : i32, "
            f"double_round = {'true' if r['dr'] else 'false'}}}")


def rescale_text(r):
    tys = [r["in_ty"], r["out_ty"]]
    lines = [f"%k = kernel.rescale %a0 {rescale_attrs(r)} : ({tys[0]}) -> {tys[1]}", f"linalg.yield %k : {tys[1]}"]
    return _generic_text(tys, lines)


@st.composite
def rescale_recipe(draw, tier="quick"):
    zp = st.one_of(st.integers(-128, 127), st.sampled_from([0, 0, -128, 127, I32[0], I32[1]]), st.integers(*I32))
    zp_in, zp_out = draw(zp), draw(zp)
    nch = draw(st.sampled_from([1, 1, 1, 1, 2, 3]))
    mult_st = st.one_of(st.integers(1 << 30, (1 << 31) - 1), st.integers(1, 1 << 16), st.integers(0, (1 << 31) - 1),
                        st.sampled_from([0, 1, 2, (1 << 30), (1 << 31) - 1, 1085889731]), st.integers(*I32))
    shift_st = st.one_of(st.integers(0, 31), st.integers(30, 62), st.sampled_from([0, 1, 31, 32, 37, 62]))
    mult = [draw(mult_st) for _ in range(nch)]
    shift = [draw(shift_st) for _ in range(nch)]
    kind = draw(st.integers(0, 9))
    if kind < 5:
        mn, mx = -128, 127
    elif kind < 8:
        a, b = draw(st.integers(-128, 127)), draw(st.integers(-128, 127))
        mn, mx = min(a, b), max(a, b)
    else:
        a, b = draw(st.integers(*I32)), draw(st.integers(*I32))
        mn, mx = min(a, b), max(a, b)
    xs = draw(st.lists(value_st(32), min_size=12, max_size=12))
    return dict(in_ty="i32", out_ty="i8", zp_in=zp_in, zp_out=zp_out, mult=mult, shift=shift,
                shift_ty=draw(st.sampled_from(["i32", "i32", "i8"])), min=mn, max=mx, dr=draw(st.booleans()), xs=xs,
                vseed=draw(st.integers(0, (1 << 64) - 1)))


# ------------------------------------------------------------------------------------------ sub 4: dispatch

ACCS = ("snax_alu", "snax_gemmx", "snax_xdma", "snax_hwpe_mult", "gemmini")
DEFAULT_RESCALE = dict(zp_in=3, zp_out=-5, mult=[1085889731], shift=[37], shift_ty="i32", min=-128, max=127, dr=False)


def dispatch_text(r):
    b = r["body"]
    tys = b["types"]
    kind = b["kind"]
    lines = []

    def kline(kernel, names, res):
        if kernel == "rescale":
            return f"{res} = kernel.rescale {names[0]} {rescale_attrs(DEFAULT_RESCALE)} : ({tys[0]}) -> {tys[-1]}"
        return kernel_line(kernel, tys, names, res)

    names = [f"%a{i}" for i in b["wiring"]]
    T = tys[-1]
    if kind == "kernel":
        lines = [kline(b["kernel"], names, "%k"), f"linalg.yield %k : {T}"]
    elif kind == "kernel+arith":  # kernel op first, but not alone
        lines = [kline(b["kernel"], names, "%k"), f"%x = arith.addi %k, %k : {T}", f"linalg.yield %x : {T}"]
    elif kind == "kernel+arith-dead":  # kernel op first and yielded, but an extra op sits between
        lines = [kline(b["kernel"], names, "%k"), f"%x = arith.addi %k, %k : {T}", f"linalg.yield %k : {T}"]
    elif kind == "arith+kernel":  # kernel op is not the first op
        n = len(tys) - 1
        lines = [f"%x = arith.addi %a{n}, %a{n} : {T}", kline(b["kernel"], names, "%k"), f"linalg.yield %k : {T}"]
    elif kind == "two-kernels":
        lines = [kline(b["kernel"], names, "%k"), kline(b["kernel"], names, "%k2"), f"linalg.yield %k2 : {T}"]
    elif kind == "arith":
        n = len(tys) - 1
        lines = [f"%x = arith.muli %a{n}, %a{n} : {T}", f"linalg.yield %x : {T}"]
    elif kind == "yield-only":
        lines = [f"linalg.yield %a{len(tys) - 1} : {T}"]
    else:
        raise AssertionError(kind)
    extra = f', library_call = "{r["preset"]}"' if r.get("preset") else ""
    return _generic_text(tys, lines, shape="?" if r["shape"] == "dynamic" else "16", extra_attr=extra, in_func=True)


def declared_types():
    """Operand+result width tuples the accelerators are known to declare (bias only)."""
    return {"add": [[64, 64, 64], [32, 32, 32]], "mul": [[64, 64, 64]], "mac": [[8, 8, 32]], "qmac": [[8, 8, 32, 32, 32]],
            "rescale": [[32, 8], [8, 32]]}


@st.composite
def dispatch_recipe(draw, tier="quick"):
    accs = draw(st.lists(st.sampled_from(ACCS), min_size=0, max_size=4, unique=True))
    kernel = draw(st.sampled_from(["add", "add", "mul", "mac", "qmac", "rescale"]))
    k = 1 if kernel == "rescale" else KERNEL_OPERANDS[kernel]
    c = draw(st.integers(0, 9))
    if c < 4:
        widths = list(draw(st.sampled_from(declared_types()[kernel])))
    elif c < 6:
        widths = list(draw(st.sampled_from(declared_types()[kernel])))
        i = draw(st.integers(0, len(widths) - 1))
        widths[i] = draw(st.sampled_from(WIDTHS))
    else:
        widths = [draw(st.sampled_from(WIDTHS)) for _ in range(k + 1)]
    kind = draw(st.sampled_from(["kernel"] * 7 + ["kernel+arith", "kernel+arith-dead", "arith+kernel", "two-kernels", "arith", "yield-only"]))
    wiring = list(range(k))
    if draw(st.integers(0, 4)) == 0:
        wiring = draw(st.sampled_from(_wirings(widths, k)))
    preset = draw(st.sampled_from([None] * 8 + ["already_there", "snax_alu"]))
    return dict(accs=accs, body=dict(kind=kind, kernel=kernel, types=[ty(w) for w in widths], wiring=wiring),
                shape=draw(st.sampled_from(["static", "static", "dynamic"])), preset=preset)


def dispatch_exhaustive(tier):
    """Single accelerator x every kernel x every width combination (qmac: operand widths free, zero points = result),
    single-kernel body, static shape."""
    for acc in ("snax_alu", "snax_gemmx", "snax_xdma"):
        for kernel in ("add", "mul", "mac", "rescale", "qmac"):
            k = 1 if kernel == "rescale" else KERNEL_OPERANDS[kernel]
            if kernel == "qmac":
                combos = [[a, b, z, z2, t] for a in WIDTHS for b in WIDTHS for z in (8, 32) for z2 in (8, 32) for t in (8, 32)]
            else:
                combos = itertools.product(WIDTHS, repeat=k + 1)
            for widths in combos:
                yield dict(accs=[acc], body=dict(kind="kernel", kernel=kernel, types=[ty(w) for w in widths], wiring=list(range(k))),
                           shape="static", preset=None)
