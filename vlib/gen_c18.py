"""Hypothesis strategies (JSON recipes) and MLIR text builders for C18."""
from __future__ import annotations

import itertools

from hypothesis import strategies as st

WIDTHS = (8, 16, 32, 64)
BIN = ("addi", "muli", "subi")
KINDS = ("addi", "muli", "subi", "extsi")

# Bias tables only (what the generator aims at). The oracle never uses them to decide anything:
# canonicity and kernel semantics are always read from the real kernel classes.
KSEQ = {
    "mul": (3, ("muli",)),
    "add": (3, ("addi",)),
    "mac": (3, ("muli", "addi")),
    "mac_ext": (3, ("extsi", "extsi", "muli", "addi")),
    "qmac": (5, ("extsi", "subi", "extsi", "subi", "muli", "addi")),
}
KERNEL_OPERANDS = {"mul": 2, "add": 2, "mac": 2, "qmac": 4}


def ty(w):
    return f"i{w}"


def canonical_body(key, T, A=None, B=None):
    """(arg widths, ops, yield ref) mirroring the kernel's equivalent region (bias only)."""
    if key == "mul":
        return [T, T, T], [["muli", [0, 1], T]], 3
    if key == "add":
        return [T, T, T], [["addi", [0, 1], T]], 3
    if key == "mac":
        return [T, T, T], [["muli", [0, 1], T], ["addi", [2, 3], T]], 4
    if key == "mac_ext":
        return [A, B, T], [["extsi", [0], T], ["extsi", [1], T], ["muli", [3, 4], T], ["addi", [2, 5], T]], 6
    if key == "qmac":
        return [A, B, T, T, T], [["extsi", [0], T], ["subi", [5, 2], T], ["extsi", [1], T], ["subi", [7, 3], T],
                                 ["muli", [6, 8], T], ["addi", [4, 9], T]], 10
    raise AssertionError(key)


# ------------------------------------------------------------------------------------------ input values


def value_st(w):
    lo, hi = -(1 << (w - 1)), (1 << (w - 1)) - 1
    return st.integers(lo, hi) | st.sampled_from([lo, lo + 1, -129, -128, -1, 1, 127, 128, hi - 1, hi]).map(lambda v: max(lo, min(hi, v)))


def vectors_st(widths, n):
    return st.lists(st.tuples(*[value_st(w) for w in widths]).map(list), min_size=n, max_size=n)


# ------------------------------------------------------------------------------------------ sub 1: linalg bodies


def _wire(draw, argw, kinds):
    """Random type-correct wiring of the op-kind sequence over block args of widths argw (last = output)."""
    vals = list(argw)
    ops = []
    outw = argw[-1]
    for k in kinds:
        if k == "extsi":
            cands = [i for i, w in enumerate(vals) if w < 64]
            if not cands:
                return None
            src = draw(st.sampled_from(cands))
            tws = [w for w in WIDTHS if w > vals[src]]
            tw = outw if (outw in tws and draw(st.integers(0, 2)) > 0) else draw(st.sampled_from(tws))
            ops.append([k, [src], tw])
            vals.append(tw)
        else:
            n = len(vals)
            a = n - 1 if (n > len(argw) and draw(st.integers(0, 2)) == 0) else draw(st.integers(0, n - 1))
            same = [i for i, w in enumerate(vals) if w == vals[a]]
            b = draw(st.sampled_from(same))
            if draw(st.booleans()):
                a, b = b, a
            ops.append([k, [a, b], vals[a]])
            vals.append(vals[a])
    cands = [i for i, w in enumerate(vals) if w == outw]
    y = cands[-1] if draw(st.integers(0, 9)) < 6 else draw(st.sampled_from(cands))
    return ops, y


def _argw_pattern(draw, n, need_narrow):
    p = draw(st.integers(0, 9))
    if p < 4:
        t = draw(st.sampled_from(WIDTHS[:3] if need_narrow else WIDTHS))
        argw = [t] * n
        if need_narrow:
            # narrow data inputs, wide rest (the shape mixed-width kernels have)
            T = draw(st.sampled_from([w for w in WIDTHS if w > t]))
            k = draw(st.integers(1, max(1, min(2, n - 1))))
            argw = [t] * k + [T] * (n - k)
    elif p < 7:
        T = draw(st.sampled_from(WIDTHS[1:]))
        argw = [draw(st.sampled_from([w for w in WIDTHS if w <= T])) for _ in range(n - 1)] + [T]
    else:
        argw = [draw(st.sampled_from(WIDTHS)) for _ in range(n)]
    if need_narrow and all(w == 64 for w in argw):
        argw[0] = 8
    return argw


def _mutate(draw, argw, ops, y):
    """One type-preserving rewiring of a body."""
    n0 = len(argw)
    widths = list(argw) + [o[2] for o in ops]
    choices = []
    for oi, (k, refs, w) in enumerate(ops):
        lim = n0 + oi
        if k != "extsi":
            if refs[0] != refs[1]:
                # operand swaps are weighted up: they are the rewiring that an order-insensitive matcher would let through
                # (harmless for addi/muli, function-changing for subi)
                choices.extend([("swap", oi, None, None)] * (8 if k == "subi" else 3))
            for pos in (0, 1):
                for c in range(lim):
                    if c != refs[pos] and widths[c] == w:
                        choices.append(("rewire", oi, pos, c))
        else:
            for c in range(lim):
                if c != refs[0] and widths[c] < w:
                    choices.append(("rewire", oi, 0, c))
    for c in range(len(widths)):
        if c != y and widths[c] == argw[-1]:
            choices.append(("yield", None, None, c))
    if not choices:
        return ops, y
    kind, oi, pos, c = draw(st.sampled_from(choices))
    ops = [[k, list(r), w] for k, r, w in ops]
    if kind == "swap":
        ops[oi][1] = ops[oi][1][::-1]
    elif kind == "rewire":
        ops[oi][1][pos] = c
    else:
        y = c
    return ops, y


def _canon_types(draw, key):
    if key in ("mul", "add", "mac"):
        return dict(T=draw(st.sampled_from(WIDTHS)))
    T = draw(st.sampled_from(WIDTHS[1:]))
    nar = [w for w in WIDTHS if w < T]
    return dict(T=T, A=draw(st.sampled_from(nar)), B=draw(st.sampled_from(nar)))


# ---- captured values: operands of body ops that are defined OUTSIDE of the body block
#
# recipe["env"]  = dict(fargs=[types], iters=[types] | None, outs=[types]) describes what surrounds the linalg.generic:
#                  leading scalar function arguments (function block arguments #0..), an enclosing scf.for with iter_args
#                  (loop block arguments #1.., #0 is the induction variable of type index), results of one "test.op" outside.
# recipe["caps"] = [[kind, j], ...] the captured values the body may use: kind "f" = function argument #j, "i" = loop iter_arg j
#                  (= loop block argument #j+1), "o" = result j of the outside op.
# Operand refs: 0..n-1 block arguments, n..n+c-1 the captured values in the order of recipe["caps"], then the op results.

CAP_KINDS = ("f", "i", "o")


def cap_type(env, cap):
    """Type string of a captured value, or None if the recipe is inconsistent."""
    kind, j = cap
    lst = {"f": env.get("fargs"), "i": env.get("iters"), "o": env.get("outs")}.get(kind)
    if not isinstance(lst, list) or not isinstance(j, int) or not (0 <= j < len(lst)):
        return None
    return lst[j]


def cap_block_index(cap):
    """Index of the captured value as a block argument of its own (enclosing) block; None for an op result."""
    kind, j = cap
    return j if kind == "f" else j + 1 if kind == "i" else None


def _shift_refs(ops, y, n, c):
    """Renumber op-result refs after c captured values were inserted behind the n block arguments."""
    sh = lambda r: r if r < n else r + c  # noqa: E731
    return [[k, [sh(r) for r in refs], w] for k, refs, w in ops], sh(y)


def _capture_aimed(draw, argw, ops, y):
    """Replace uses of block argument #i by a value captured from an ENCLOSING block that sits at the same block-argument
    index #i and has the same type (function argument #i, or loop iter_arg i-1). A matcher that identifies block arguments by
    their index instead of by identity cannot tell the two apart."""
    n = len(argw)
    used = sorted({r for _, refs, _ in ops for r in refs if r < n})
    m = draw(st.sampled_from([1, 1, 1, 2, len(used)]))
    chosen = sorted(draw(st.lists(st.sampled_from(used), min_size=1, max_size=max(1, min(m, len(used))), unique=True)))
    kinds = {i: (draw(st.sampled_from(["f", "i"])) if i >= 1 else "f") for i in chosen}
    mimic = draw(st.booleans())  # the other slots of the enclosing block repeat the body's own argument types

    def slot_type(idx):
        return argw[idx] if (mimic and idx < n) else draw(st.sampled_from(WIDTHS))

    env = dict(fargs=[], iters=None, outs=[])
    if any(k == "f" for k in kinds.values()) or draw(st.integers(0, 3)) == 0:
        L = max([i for i, k in kinds.items() if k == "f"], default=-1) + 1 + draw(st.sampled_from([0, 0, 1]))
        env["fargs"] = [ty(argw[i]) if kinds.get(i) == "f" else ty(slot_type(i)) for i in range(min(L, 6))]
    if any(k == "i" for k in kinds.values()) or draw(st.integers(0, 3)) == 0:
        L = max([i for i, k in kinds.items() if k == "i"], default=0) + draw(st.sampled_from([0, 0, 1]))
        env["iters"] = [ty(argw[j + 1]) if kinds.get(j + 1) == "i" else ty(slot_type(j + 1)) for j in range(min(L, 5))]
    caps = [[kinds[i], i if kinds[i] == "f" else i - 1] for i in chosen]
    ops, y = _shift_refs(ops, y, n, len(caps))
    for ci, i in enumerate(chosen):
        places = [(oi, pos) for oi, (_, refs, _) in enumerate(ops) for pos, r in enumerate(refs) if r == i]
        if len(places) > 1 and draw(st.booleans()):
            places = [draw(st.sampled_from(places))]
        for oi, pos in places:
            ops[oi][1][pos] = n + ci
    return env, caps, ops, y


def _capture_free(draw, argw, ops, y):
    """Any surrounding, any captured values of widths that occur in the body, any type-correct uses."""
    n = len(argw)
    present = sorted(set(argw) | {w for _, _, w in ops})
    wst = st.sampled_from(present + present + list(WIDTHS))
    env = dict(fargs=[ty(draw(wst)) for _ in range(draw(st.integers(0, 4)))],
               iters=[ty(draw(wst)) for _ in range(draw(st.integers(1, 3)))] if draw(st.booleans()) else None,
               outs=[ty(draw(wst)) for _ in range(draw(st.integers(0, 2)))])
    pool = [["f", j] for j in range(len(env["fargs"]))] + [["i", j] for j in range(len(env["iters"] or []))] + \
           [["o", j] for j in range(len(env["outs"]))]
    if not pool:
        env["outs"] = [ty(draw(wst))]
        pool = [["o", 0]]
    caps = draw(st.lists(st.sampled_from(pool), min_size=1, max_size=min(3, len(pool)), unique_by=lambda c: tuple(c)))
    capw = [width_of(cap_type(env, c)) for c in caps]
    ops, y = _shift_refs(ops, y, n, len(caps))
    widths = list(argw) + capw + [w for _, _, w in ops]
    for k, refs, w in ops:
        for pos in range(len(refs)):
            if draw(st.integers(0, 2)) == 0:
                fits = [n + ci for ci, cw in enumerate(capw) if (cw < w if k == "extsi" else cw == w)]
                if fits:
                    refs[pos] = draw(st.sampled_from(fits))
    if draw(st.integers(0, 7)) == 0:
        fits = [n + ci for ci, cw in enumerate(capw) if cw == widths[y]]
        if fits:
            y = draw(st.sampled_from(fits))
    return env, caps, ops, y


@st.composite
def l2k_recipe(draw, tier="quick"):
    if draw(st.integers(0, 3)) != 0:
        return draw(_l2k_plain(tier))
    # a quarter of the bodies use values defined outside of the body block
    aim = draw(st.integers(0, 3)) != 0
    # aimed captures start from a kernel's own wiring in half of the cases (the body a matcher is most likely to accept)
    r = draw(_l2k_plain(tier, "canonical" if aim and draw(st.booleans()) else None))
    argw = [width_of(t) for t in r["args"]]
    ops = [[k, list(refs), width_of(t)] for k, refs, t in r["ops"]]
    has_use = any(x < len(argw) for _, refs, _ in ops for x in refs)
    if has_use and aim:
        env, caps, ops, y = _capture_aimed(draw, argw, ops, r["yield"])
        capmode = "aim"
    else:
        env, caps, ops, y = _capture_free(draw, argw, ops, r["yield"])
        capmode = "free"
    capw = [width_of(cap_type(env, c)) for c in caps]
    r.update(ops=[[k, refs, ty(w)] for k, refs, w in ops], env=env, caps=caps, capmode=capmode)
    r["yield"] = y
    r["vecs"] = [v + e for v, e in zip(r["vecs"], draw(vectors_st(capw, 4)))]
    return r


@st.composite
def _l2k_plain(draw, tier="quick", mode=None):
    mode = mode or draw(st.sampled_from(["canonical", "near", "near", "near", "seq", "seq", "seq", "free", "free", "free", "free", "free"]))
    key = None
    if mode in ("canonical", "near"):
        key = draw(st.sampled_from(list(KSEQ)))
        argw, ops, y = canonical_body(key, **_canon_types(draw, key))
        canon_ops, canon_y = [list(o) for o in ops], y
        if mode == "near":
            for _ in range(draw(st.sampled_from([1, 1, 1, 2, 3]))):
                ops, y = _mutate(draw, argw, ops, y)
    else:
        if mode == "seq":
            key = draw(st.sampled_from(list(KSEQ)))
            n, kinds = KSEQ[key]
        else:
            n = draw(st.sampled_from([2, 3, 3, 3, 3, 4, 5, 5, 6]))
            kinds = draw(st.lists(st.sampled_from(KINDS), min_size=1, max_size=6))
        argw = _argw_pattern(draw, n, need_narrow="extsi" in kinds)
        wired = _wire(draw, argw, kinds)
        if wired is None:  # no value narrower than i64 for an extsi: drop the extsi ops
            kinds = [k for k in kinds if k != "extsi"] or ["addi"]
            wired = _wire(draw, argw, kinds)
            mode = "free"
        ops, y = wired
    vecs = draw(vectors_st(argw, 4))
    vseed = draw(st.integers(0, (1 << 64) - 1))
    rec = dict(args=[ty(w) for w in argw], ops=[[k, r, ty(w)] for k, r, w in ops], **{"yield": y}, vecs=vecs, vseed=vseed,
               mode=mode + (":" + key if key else ""))
    if mode == "near" and draw(st.integers(0, 2)) == 0:
        # the kernel's canonical body on the same buffers sits in front of the body under test in the same module
        rec["sib"] = dict(args=list(rec["args"]), ops=[[k, r, ty(w)] for k, r, w in canon_ops], **{"yield": canon_y})
    return rec


def l2k_exhaustive(tier):
    """All bodies of <= 2 ops from {addi, muli, subi} over 3 arguments at one width, any wiring, any yielded value
    (quick: i8; thorough: all four widths, plus all 3-op bodies at i8 that yield their last op)."""
    plan = [(8, 2)] if tier != "thorough" else [(8, 3), (16, 2), (32, 2), (64, 2)]
    for w, maxops in plan:
        for nops in range(1, maxops + 1):
            spaces = []
            for i in range(nops):
                nv = 3 + i
                spaces.append([(k, a, b) for k in BIN for a in range(nv) for b in range(nv)])
            for combo in itertools.product(*spaces):
                ops = [[k, [a, b], ty(w)] for k, a, b in combo]
                for y in (range(3 + nops) if nops < 3 else [2 + nops]):
                    yield dict(args=[ty(w)] * 3, ops=ops, **{"yield": y}, vecs=[], vseed=nops * 1000 + y, mode="exhaustive")
    yield from l2k_capture_exhaustive(tier)


def l2k_capture_exhaustive(tier):
    """Every kernel's canonical body (one type assignment each; thorough: three) with every non-empty subset of its block
    arguments replaced, at all their uses, by a value captured from an enclosing block at the SAME block-argument index and of the
    SAME type: once all from the function's arguments, once all from the iter_args of an enclosing scf.for (subsets without
    argument #0, which is the induction variable there); the other slots of the enclosing block repeat the body's argument types."""
    types = [dict(T=8), dict(T=32)] if tier != "thorough" else [dict(T=8), dict(T=32), dict(T=64)]
    mixed = [dict(T=32, A=8, B=8)] if tier != "thorough" else [dict(T=32, A=8, B=8), dict(T=64, A=8, B=16), dict(T=16, A=8, B=8)]
    for key in KSEQ:
        for tys in (types if key in ("mul", "add", "mac") else mixed):
            argw, ops0, y0 = canonical_body(key, **tys)
            n = len(argw)
            used = sorted({r for _, refs, _ in ops0 for r in refs if r < n})
            for mask_ in range(1, 1 << len(used)):
                chosen = [u for b, u in enumerate(used) if mask_ >> b & 1]
                for kind in ("f", "i"):
                    if kind == "i" and chosen[0] == 0:
                        continue
                    env = dict(fargs=[ty(w) for w in argw] if kind == "f" else [],
                               iters=[ty(w) for w in argw[1:]] if kind == "i" else None, outs=[])
                    caps = [[kind, i if kind == "f" else i - 1] for i in chosen]
                    ops, y = _shift_refs(ops0, y0, n, len(caps))
                    for _, refs, _ in ops:
                        for pos, r in enumerate(refs):
                            if r in chosen:
                                refs[pos] = n + chosen.index(r)
                    yield dict(args=[ty(w) for w in argw], ops=[[k, refs, ty(w)] for k, refs, w in ops], **{"yield": y}, vecs=[],
                               vseed=mask_ * 7 + n, mode="exhaustive", env=env, caps=caps, capmode="aim")


def width_of(t: str) -> int:
    assert t[0] == "i" and t[1:].isdigit(), t
    return int(t[1:])


def _generic_text(argtys, body_lines, shape="4", extra_attr="", in_func=False):
    """A module with one linalg.generic over 1-D memrefs whose element types are the block argument types."""
    n = len(argtys)
    mts = [f"memref<{shape}x{t}>" for t in argtys]
    maps = ", ".join(["affine_map<(d0) -> (d0)>"] * n)
    ins_v = ", ".join(f"%m{i}" for i in range(n - 1))
    ins_t = ", ".join(mts[:-1])
    bargs = ", ".join(f"%a{i} : {t}" for i, t in enumerate(argtys))
    ins = f"ins({ins_v} : {ins_t}) " if n > 1 else ""
    gen = (f'linalg.generic {{indexing_maps = [{maps}], iterator_types = ["parallel"]{extra_attr}}} '
           f"{ins}outs(%m{n - 1} : {mts[-1]}) {{\n^bb0({bargs}):\n" + "\n".join("  " + l for l in body_lines) + "\n}")
    if in_func:
        fargs = ", ".join(f"%m{i} : {t}" for i, t in enumerate(mts))
        return f"builtin.module {{\nfunc.func public @f({fargs}) {{\n{gen}\nfunc.return\n}}\n}}"
    defs = ", ".join(f"%m{i}" for i in range(n))
    return f'builtin.module {{\n{defs} = "test.op"() : () -> ({", ".join(mts)})\n{gen}\n}}'


OUTS_TAG = "captured"  # attribute name marking the outside op whose results are captured


def _env_text(argtys, body_lines, env):
    """The linalg.generic inside a function with leading scalar arguments, optionally inside an scf.for with iter_args,
    optionally behind a "test.op" whose results the body may use."""
    n = len(argtys)
    mts = [f"memref<4x{t}>" for t in argtys]
    maps = ", ".join(["affine_map<(d0) -> (d0)>"] * n)
    ins = f"ins({', '.join(f'%m{i}' for i in range(n - 1))} : {', '.join(mts[:-1])}) " if n > 1 else ""
    bargs = ", ".join(f"%a{i} : {t}" for i, t in enumerate(argtys))
    gen = [f'linalg.generic {{indexing_maps = [{maps}], iterator_types = ["parallel"]}} {ins}outs(%m{n - 1} : {mts[-1]}) {{',
           f"^bb0({bargs}):"] + ["  " + l for l in body_lines] + ["}"]
    fargs = [f"%f{i} : {t}" for i, t in enumerate(env.get("fargs") or [])] + [f"%m{i} : {t}" for i, t in enumerate(mts)]
    L = ["builtin.module {", f"func.func public @f({', '.join(fargs)}) {{"]
    outs = env.get("outs") or []
    if outs:
        L.append(f'{", ".join(f"%o{j}" for j in range(len(outs)))} = "test.op"() {{{OUTS_TAG}}} : () -> ({", ".join(outs)})')
    iters = env.get("iters")
    if iters is not None:
        L += ["%lb = arith.constant 0 : index", "%ub = arith.constant 2 : index", "%st = arith.constant 1 : index"]
        if iters:
            k = len(iters)
            L.append(f'{", ".join(f"%n{j}" for j in range(k))} = "test.op"() : () -> ({", ".join(iters)})')
            L.append(f'{", ".join(f"%r{j}" for j in range(k))} = scf.for %iv = %lb to %ub step %st '
                     f'iter_args({", ".join(f"%i{j} = %n{j}" for j in range(k))}) -> ({", ".join(iters)}) {{')
            L += gen
            L.append(f'scf.yield {", ".join(f"%i{j}" for j in range(k))} : {", ".join(iters)}')
        else:
            L.append("scf.for %iv = %lb to %ub step %st {")
            L += gen
        L.append("}")
    else:
        L += gen
    L += ["func.return", "}", "}"]
    return "\n".join(L)


def l2k_text(r):
    argtys = r["args"]
    n = len(argtys)
    names = [f"%a{i}" for i in range(n)]
    tys = list(argtys)
    caps = r.get("caps") or []
    env = r.get("env") or {}
    for c in caps:
        names.append(f"%{c[0]}{c[1]}")
        tys.append(cap_type(env, c))
    lines = []
    for k, refs, t in r["ops"]:
        v = f"%v{len(names)}"
        if k == "extsi":
            lines.append(f"{v} = arith.extsi {names[refs[0]]} : {tys[refs[0]]} to {t}")
        else:
            lines.append(f"{v} = arith.{k} {names[refs[0]]}, {names[refs[1]]} : {t}")
        names.append(v)
        tys.append(t)
    lines.append(f"linalg.yield {names[r['yield']]} : {tys[r['yield']]}")
    if r.get("env") is not None:
        return _env_text(argtys, lines, env)
    return _generic_text(argtys, lines)


# ------------------------------------------------------------------------------------------ sub 2: kernel ops


def accepted_combos():
    """(kernel, operand widths + result width) for which the kernel's equivalent region is well typed (bias only)."""
    out = []
    for T in WIDTHS:
        out += [("mul", [T, T, T]), ("add", [T, T, T]), ("mac", [T, T, T])]
        nar = [w for w in WIDTHS if w < T]
        for A in nar:
            for B in nar:
                out.append(("mac", [A, B, T]))
                out.append(("qmac", [A, B, T, T, T]))
    return out


def kernel_line(kernel, tys, operand_names, res="%k"):
    if kernel == "qmac":
        a, b, c, d = operand_names
        return (f"{res} = kernel.qmac {a}, {b} zp_lhs : {c} zp_rhs : {d} : "
                f"{tys[0]}, {tys[1]}, {tys[2]}, {tys[3]} -> {tys[4]}")
    a, b = operand_names
    return f"{res} = kernel.{kernel} {a}, {b} : {tys[0]}, {tys[1]} -> {tys[2]}"


def k2l_text(r):
    tys = r["types"]
    names = [f"%a{i}" for i in r["wiring"]]
    lines = [kernel_line(r["kernel"], tys, names), f"linalg.yield %k : {tys[-1]}"]
    return _generic_text(tys, lines)


def _wirings(widths, k):
    """All type-consistent choices of block arguments for the k kernel operands."""
    per = [[i for i, w in enumerate(widths) if w == widths[j]] for j in range(k)]
    return [list(c) for c in itertools.product(*per)]


@st.composite
def k2l_recipe(draw, tier="quick"):
    if draw(st.integers(0, 9)) < 8:
        kernel, widths = draw(st.sampled_from(accepted_combos()))
    else:
        kernel = draw(st.sampled_from(list(KERNEL_OPERANDS)))
        widths = [draw(st.sampled_from(WIDTHS)) for _ in range(KERNEL_OPERANDS[kernel] + 1)]
    k = KERNEL_OPERANDS[kernel]
    wiring = list(range(k))
    if draw(st.integers(0, 3)) == 0:
        wiring = draw(st.sampled_from(_wirings(widths, k)))
    return dict(kernel=kernel, types=[ty(w) for w in widths], wiring=wiring, vecs=draw(vectors_st(widths, 4)),
                vseed=draw(st.integers(0, (1 << 64) - 1)))


def k2l_exhaustive(tier):
    """Every kernel with every width combination (those without a well-typed definition are classified 'outside'),
    operands = block arguments in order."""
    for kernel, k in KERNEL_OPERANDS.items():
        for widths in itertools.product(WIDTHS, repeat=k + 1):
            yield dict(kernel=kernel, types=[ty(w) for w in widths], wiring=list(range(k)), vecs=[], vseed=7)


# ------------------------------------------------------------------------------------------ sub 3: rescale

I32 = (-(1 << 31), (1 << 31) - 1)


def rescale_attrs(r):
    mult = ", ".join(str(m) for m in r["mult"])
    shift = ", ".join(str(s) for s in r["shift"])
    return (f"{{input_zp = {r['zp_in']} : i32, output_zp = {r['zp_out']} : i32, multiplier = array<i32: {mult}>, "
            f"shift = array<{r.get('shift_ty', 'i32')}: {shift}>, min_int = {r['min']} : i32, max_int = {r['max']} : i32, "
            f"double_round = {'true' if r['dr'] else 'false'}}}")


def rescale_text(r):
    tys = [r["in_ty"], r["out_ty"]]
    lines = [f"%k = kernel.rescale %a0 {rescale_attrs(r)} : ({tys[0]}) -> {tys[1]}", f"linalg.yield %k : {tys[1]}"]
    return _generic_text(tys, lines)


@st.composite
def rescale_recipe(draw, tier="quick"):
    zp = st.one_of(st.integers(-128, 127), st.sampled_from([0, 0, -128, 127, I32[0], I32[1]]), st.integers(*I32))
    zp_in, zp_out = draw(zp), draw(zp)
    nch = draw(st.sampled_from([1, 1, 1, 1, 2, 3]))
    mult_st = st.one_of(st.integers(1 << 30, (1 << 31) - 1), st.integers(1, 1 << 16), st.integers(0, (1 << 31) - 1),
                        st.sampled_from([0, 1, 2, (1 << 30), (1 << 31) - 1, 1085889731]), st.integers(*I32))
    shift_st = st.one_of(st.integers(0, 31), st.integers(30, 62), st.sampled_from([0, 1, 31, 32, 37, 62]))
    mult = [draw(mult_st) for _ in range(nch)]
    shift = [draw(shift_st) for _ in range(nch)]
    kind = draw(st.integers(0, 9))
    if kind < 5:
        mn, mx = -128, 127
    elif kind < 8:
        a, b = draw(st.integers(-128, 127)), draw(st.integers(-128, 127))
        mn, mx = min(a, b), max(a, b)
    else:
        a, b = draw(st.integers(*I32)), draw(st.integers(*I32))
        mn, mx = min(a, b), max(a, b)
    xs = draw(st.lists(value_st(32), min_size=12, max_size=12))
    return dict(in_ty="i32", out_ty="i8", zp_in=zp_in, zp_out=zp_out, mult=mult, shift=shift,
                shift_ty=draw(st.sampled_from(["i32", "i32", "i8"])), min=mn, max=mx, dr=draw(st.booleans()), xs=xs,
                vseed=draw(st.integers(0, (1 << 64) - 1)))


# ------------------------------------------------------------------------------------------ sub 4: dispatch

ACCS = ("snax_alu", "snax_gemmx", "snax_xdma", "snax_hwpe_mult", "gemmini")
DEFAULT_RESCALE = dict(zp_in=3, zp_out=-5, mult=[1085889731], shift=[37], shift_ty="i32", min=-128, max=127, dr=False)


def dispatch_text(r):
    b = r["body"]
    tys = b["types"]
    kind = b["kind"]
    lines = []

    def kline(kernel, names, res):
        if kernel == "rescale":
            return f"{res} = kernel.rescale {names[0]} {rescale_attrs(DEFAULT_RESCALE)} : ({tys[0]}) -> {tys[-1]}"
        return kernel_line(kernel, tys, names, res)

    names = [f"%a{i}" for i in b["wiring"]]
    T = tys[-1]
    if kind == "kernel":
        lines = [kline(b["kernel"], names, "%k"), f"linalg.yield %k : {T}"]
    elif kind == "kernel+arith":  # kernel op first, but not alone
        lines = [kline(b["kernel"], names, "%k"), f"%x = arith.addi %k, %k : {T}", f"linalg.yield %x : {T}"]
    elif kind == "kernel+arith-dead":  # kernel op first and yielded, but an extra op sits between
        lines = [kline(b["kernel"], names, "%k"), f"%x = arith.addi %k, %k : {T}", f"linalg.yield %k : {T}"]
    elif kind == "arith+kernel":  # kernel op is not the first op
        n = len(tys) - 1
        lines = [f"%x = arith.addi %a{n}, %a{n} : {T}", kline(b["kernel"], names, "%k"), f"linalg.yield %k : {T}"]
    elif kind == "two-kernels":
        lines = [kline(b["kernel"], names, "%k"), kline(b["kernel"], names, "%k2"), f"linalg.yield %k2 : {T}"]
    elif kind == "kernel-chain":  # a second kernel op consumes the result of the first and is yielded
        lines = [kline(b["kernel"], names, "%k"), kernel_line(b.get("chain", "add"), [T, T, T], ["%k", "%k"], "%k2"), f"linalg.yield %k2 : {T}"]
    elif kind == "arith":
        n = len(tys) - 1
        lines = [f"%x = arith.muli %a{n}, %a{n} : {T}", f"linalg.yield %x : {T}"]
    elif kind == "yield-only":
        lines = [f"linalg.yield %a{len(tys) - 1} : {T}"]
    else:
        raise AssertionError(kind)
    extra = f', library_call = "{r["preset"]}"' if r.get("preset") else ""
    return _generic_text(tys, lines, shape="?" if r["shape"] == "dynamic" else "16", extra_attr=extra, in_func=True)


def declared_types():
    """Operand+result width tuples the accelerators are known to declare (bias only)."""
    return {"add": [[64, 64, 64], [32, 32, 32]], "mul": [[64, 64, 64]], "mac": [[8, 8, 32]], "qmac": [[8, 8, 32, 32, 32]],
            "rescale": [[32, 8], [8, 32]]}


@st.composite
def dispatch_recipe(draw, tier="quick"):
    accs = draw(st.lists(st.sampled_from(ACCS), min_size=0, max_size=4, unique=True))
    kernel = draw(st.sampled_from(["add", "add", "mul", "mac", "qmac", "rescale"]))
    k = 1 if kernel == "rescale" else KERNEL_OPERANDS[kernel]
    c = draw(st.integers(0, 9))
    if c < 4:
        widths = list(draw(st.sampled_from(declared_types()[kernel])))
    elif c < 6:
        widths = list(draw(st.sampled_from(declared_types()[kernel])))
        i = draw(st.integers(0, len(widths) - 1))
        widths[i] = draw(st.sampled_from(WIDTHS))
    else:
        widths = [draw(st.sampled_from(WIDTHS)) for _ in range(k + 1)]
    kind = draw(st.sampled_from(["kernel"] * 7 + ["kernel+arith", "kernel+arith-dead", "arith+kernel", "two-kernels", "kernel-chain", "arith", "yield-only"]))
    wiring = list(range(k))
    if draw(st.integers(0, 4)) == 0:
        wiring = draw(st.sampled_from(_wirings(widths, k)))
    preset = draw(st.sampled_from([None] * 8 + ["already_there", "snax_alu"]))
    body = dict(kind=kind, kernel=kernel, types=[ty(w) for w in widths], wiring=wiring)
    if kind == "kernel-chain":
        body["chain"] = draw(st.sampled_from(["add", "mul"]))
    return dict(accs=accs, body=body, shape=draw(st.sampled_from(["static", "static", "dynamic"])), preset=preset)


def dispatch_exhaustive(tier):
    """Single accelerator x every kernel x every width combination (qmac: operand widths free, zero points = result),
    single-kernel body, static shape."""
    for acc in ("snax_alu", "snax_gemmx", "snax_xdma"):
        for kernel in ("add", "mul", "mac", "rescale", "qmac"):
            k = 1 if kernel == "rescale" else KERNEL_OPERANDS[kernel]
            if kernel == "qmac":
                combos = [[a, b, z, z2, t] for a in WIDTHS for b in WIDTHS for z in (8, 32) for z2 in (8, 32) for t in (8, 32)]
            else:
                combos = itertools.product(WIDTHS, repeat=k + 1)
            for widths in combos:
                yield dict(accs=[acc], body=dict(kind="kernel", kernel=kernel, types=[ty(w) for w in widths], wiring=list(range(k))),
                           shape="static", preset=None)


# ------------------------------------------------------------------------------------------ sub 5: tosa.rescale [+ tosa.clamp]
#
# recipe: dict(in_ty, out_ty in {i8, i32}; zp_in, zp_out; zp_ty "i32" (constant tensors of i32, as upstream writes them) or
#              "native" (of the input / output element type); mult=[m], shift=[s] (per-tensor: one entry each); shift_ty "i8"|"i32";
#              consumer "none" (the rescale result goes straight to its user), "clamp" (tosa.clamp is its only user) or
#              "clamp+use" (the clamp and one more user); clamp=[min, max] | None; dr (DOUBLE_ROUND); shape; xs; vseed)
# The module is built from objects (xdsl.dialects.tosa), never parsed from text: xDSL 0.70 prints/parses tosa.rescale differently
# from the pinned version, the op classes are the same.

TOSA_SHAPES = {"static": [4], "dynamic": [-1, 8], "dynamic-inner": [2, -1]}
TOSA_PARAMS = [  # (zp_in, zp_out, multiplier, shift)
    (0, -128, 1085889731, 37),  # tests/filecheck/transforms/convert-tosa-to-kernel.mlir
    (0, 0, 1140768826, 47),  # kernels/rescale/rescale_down.py
    (3, -5, 1 << 30, 30),  # scale 1
]


def int_range(t):
    w = width_of(t)
    return -(1 << (w - 1)), (1 << (w - 1)) - 1


@st.composite
def tosa_recipe(draw, tier="quick"):
    in_ty = draw(st.sampled_from(["i32", "i32", "i32", "i8"]))
    out_ty = draw(st.sampled_from(["i8", "i8", "i8", "i32"]))
    zp_ty = draw(st.sampled_from(["i32", "i32", "native"]))

    def zp(t):
        lo, hi = int_range(t if zp_ty == "native" else "i32")
        return draw(st.one_of(st.integers(-128, 127), st.sampled_from([0, 0, -128, 127, lo, hi]), st.integers(lo, hi)))

    zp_in, zp_out = zp(in_ty), zp(out_ty)
    if draw(st.integers(0, 3)) == 0:
        _, _, mult, shift = draw(st.sampled_from(TOSA_PARAMS))
    else:
        mult = draw(st.one_of(st.integers(1 << 30, (1 << 31) - 1), st.integers(1, 1 << 16), st.integers(0, (1 << 31) - 1),
                              st.sampled_from([0, 1, 2, (1 << 30), (1 << 31) - 1]), st.integers(*I32)))
        shift = draw(st.one_of(st.integers(0, 31), st.integers(30, 62), st.sampled_from([0, 1, 31, 32, 37, 62])))
    consumer = draw(st.sampled_from(["none", "none", "none", "clamp", "clamp", "clamp", "clamp", "clamp+use"]))
    clamp = None
    if consumer != "none":
        lo, hi = int_range(out_ty)
        kind = draw(st.integers(0, 9))
        if kind < 3:
            clamp = [lo, hi]
        elif kind < 8 or out_ty == "i8":
            a, b = draw(st.integers(-128, 127)), draw(st.integers(-128, 127))
            clamp = [min(a, b), max(a, b)]
        else:
            a, b = draw(st.integers(lo, hi)), draw(st.integers(lo, hi))
            clamp = [min(a, b), max(a, b)]
    return dict(in_ty=in_ty, out_ty=out_ty, zp_in=zp_in, zp_out=zp_out, zp_ty=zp_ty, mult=[mult], shift=[shift],
                shift_ty=draw(st.sampled_from(["i8", "i32"])), consumer=consumer, clamp=clamp, dr=draw(st.booleans()),
                shape=draw(st.sampled_from(["static", "static", "dynamic", "dynamic-inner"])),
                xs=draw(st.lists(value_st(width_of(in_ty)), min_size=12, max_size=12)), vseed=draw(st.integers(0, (1 << 64) - 1)))


def tosa_exhaustive(tier):
    """Every in/out type pair x {no clamp, clamp to the full output range, clamp inside} x three parameter sets x rounding mode."""
    for in_ty in ("i32", "i8"):
        for out_ty in ("i8", "i32"):
            for consumer, clamp in (("none", None), ("clamp", list(int_range(out_ty))), ("clamp", [-100, 100])):
                for zi, zo, m, s in TOSA_PARAMS:
                    for dr in (False, True):
                        yield dict(in_ty=in_ty, out_ty=out_ty, zp_in=zi, zp_out=zo, zp_ty="i32", mult=[m], shift=[s], shift_ty="i32",
                                   consumer=consumer, clamp=clamp, dr=dr, shape="static", xs=[], vseed=s)


def tosa_module(r):
    """builtin.module { %x = test.op; consts; tosa.rescale; [tosa.clamp]; test.op(users) } built from op objects."""
    from xdsl.builder import Builder
    from xdsl.dialects import tosa
    from xdsl.dialects.builtin import BoolAttr, DenseIntOrFPElementsAttr, IntegerAttr, IntegerType, ModuleOp, TensorType, i1
    from xdsl.dialects.test import TestOp

    in_t, out_t = IntegerType(width_of(r["in_ty"])), IntegerType(width_of(r["out_ty"]))
    i32 = IntegerType(32)
    zin_t, zout_t = (in_t, out_t) if r["zp_ty"] == "native" else (i32, i32)
    shape = TOSA_SHAPES[r["shape"]]

    def const(t, vals):
        return tosa.ConstOp(DenseIntOrFPElementsAttr.from_list(TensorType(t, (len(vals),)), list(vals)))

    @Builder.implicit_region([])
    def body(_):
        x = TestOp(result_types=[TensorType(in_t, shape)])
        zi, zo = const(zin_t, [r["zp_in"]]), const(zout_t, [r["zp_out"]])
        m, s = const(i32, r["mult"]), const(IntegerType(width_of(r["shift_ty"])), r["shift"])
        mode = tosa.RoundingMode.DOUBLE_ROUND if r["dr"] else tosa.RoundingMode.SINGLE_ROUND
        res = tosa.RescaleOp(operands=[x.results[0], m, s, zi, zo], result_types=[TensorType(out_t, shape)],
                             properties=dict(scale32=BoolAttr(True, i1), rounding_mode=tosa.RoundingModeAttr(mode),
                                             per_channel=BoolAttr(False, i1), input_unsigned=BoolAttr(False, i1),
                                             output_unsigned=BoolAttr(False, i1)))
        last = res.results[0]
        if r["consumer"] != "none":
            c = tosa.ClampOp(operands=[last], result_types=[TensorType(out_t, shape)],
                             properties=dict(min_val=IntegerAttr(r["clamp"][0], out_t), max_val=IntegerAttr(r["clamp"][1], out_t)))
            if r["consumer"] == "clamp+use":
                TestOp(operands=[last], attributes={"other_user": BoolAttr(True, i1)})
            last = c.results[0]
        TestOp(operands=[last], attributes={"final_user": BoolAttr(True, i1)})

    return ModuleOp(body)
