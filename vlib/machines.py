"""Abstract machines: the observation layer for executed IR (DESIGN.md 2.3)."""
from __future__ import annotations

from .interp import InterpError


class Havoc:
    """Unknown register content left behind by an opaque call (n = position in the call trace)."""

    __slots__ = ("n",)

    def __init__(self, n):
        self.n = n

    def __eq__(self, other):
        return isinstance(other, Havoc) and other.n == self.n

    def __hash__(self):
        return hash(("havoc", self.n))

    def __repr__(self):
        return f"HAVOC({self.n})"


class Machine:
    """Base machine: no semantics beyond bookkeeping."""

    interp = None

    def on_value(self, ssa, val, env):
        pass

    def on_loop_enter(self, op):
        pass

    def exec(self, op, operands, env):
        return NotImplemented

    def call(self, name, args, op, env):
        raise InterpError(f"call to unknown function {name}")

    def constant(self, op, attr):
        raise InterpError(f"unsupported constant {attr}")

    def symbolic(self, op, vals):
        raise InterpError(f"non-integer operands for {op.name}")


def has_no_effects_annotation(op) -> bool:
    a = op.attributes.get("accfg.effects")
    return a is not None and getattr(getattr(a, "data", None), "value", None) == "none"


class StateHandle:
    """Run-time value of an !accfg.state SSA value."""

    __slots__ = ("acc", "serial")

    def __init__(self, acc, serial):
        self.acc = acc
        self.serial = serial

    def __repr__(self):
        return f"state<{self.acc}#{self.serial}>"


class Token:
    __slots__ = ("acc",)

    def __init__(self, acc):
        self.acc = acc


class CSRMachine(Machine):
    """Field-level accelerator register file + event trace (before CSR lowering).

    regs[acc] = dict field -> value; default[acc] = what a never-written field holds (HAVOC(n)).
    Events: ("launch", acc, {field: value written or default}, default, launch_vals), ("await", acc), ("call", name, args).
    """

    def __init__(self, record_setups=False):
        self.regs: dict[str, dict] = {}
        self.default: dict[str, Havoc] = {}
        self.trace: list = []
        self.ncalls = 0
        self.havoc_now = Havoc(0)
        self.record_setups = record_setups
        self.serial = 0
        self.state_hook = None  # callable(ssa, env, machine) for C07
        self.call_results = None
        self.last: dict[str, object] = {}  # acc -> StateHandle of the most recent setup (None after havoc)
        self.link_errors: list = []

    def _acc(self, acc):
        if acc not in self.regs:
            self.regs[acc] = {}
            self.default[acc] = self.havoc_now
        return self.regs[acc]

    def havoc(self):
        self.ncalls += 1
        self.havoc_now = Havoc(self.ncalls)
        self.last.clear()
        for acc in self.regs:
            self.regs[acc] = {}
            self.default[acc] = self.havoc_now

    def read(self, acc, field):
        r = self._acc(acc)
        return r.get(field, self.default[acc])

    def on_value(self, ssa, val, env):
        if self.state_hook is not None and isinstance(val, StateHandle):
            self.state_hook(ssa, env, self)

    def exec(self, op, operands, env):
        n = op.name
        if n == "accfg.setup":
            acc = op.accelerator.data
            r = self._acc(acc)
            nvals = len(op.values)
            names = [p.data for p in op.param_names]
            for name, v in zip(names, operands[:nvals]):
                r[name] = v
            if self.record_setups:
                self.trace.append(("setup", acc, tuple(zip(names, operands[:nvals]))))
            if len(operands) > nvals:
                # in_state must be the state produced by the setup that really precedes this one
                if self.last.get(acc) is not operands[nvals]:
                    self.link_errors.append((acc, repr(operands[nvals]), repr(self.last.get(acc))))
            self.serial += 1
            h = StateHandle(acc, self.serial)
            self.last[acc] = h
            return [h]
        if n == "accfg.launch":
            acc = op.accelerator.data
            r = self._acc(acc)
            nvals = len(op.values)
            names = [p.data for p in op.param_names]
            self.trace.append(("launch", acc, dict(r), self.default[acc], tuple(zip(names, operands[:nvals]))))
            return [Token(acc)]
        if n == "accfg.await":
            tok = operands[0]
            self.trace.append(("await", tok.acc if isinstance(tok, Token) else None))
            return []
        if n == "accfg.reset":
            st = operands[0]
            acc = st.acc
            self.trace.append(("reset", acc))
            self.regs[acc] = {}
            self.ncalls += 1
            self.default[acc] = Havoc(self.ncalls)
            self.last[acc] = None
            return []
        if n == "test.op" or n.startswith("test."):
            # opaque op: an event; by has_accfg_effects' rules it does not touch accelerator state unless annotated full
            a = op.attributes.get("accfg.effects")
            self.trace.append(("op", n, tuple(operands)))
            if a is not None and getattr(getattr(a, "data", None), "value", None) == "full":
                self.havoc()
            return [1000 + len(self.trace) for _ in op.results]
        return NotImplemented

    def call(self, name, args, op, env):
        self.trace.append(("call", name, tuple(args)))
        if not has_no_effects_annotation(op):
            self.havoc()
        return [7000 + self.ncalls * 10 + i for i, _ in enumerate(op.results)]
