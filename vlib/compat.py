"""xDSL 0.70 compatibility shim (DESIGN.md 1.1).

The repository pins an older xDSL in which `irdl_options` may be a list. xDSL 0.70
insists on a tuple. This wraps OpDef.from_pyrdl so list-valued irdl_options on the class
MRO are turned into tuples before xDSL looks at them. Nothing else is changed.
Must be imported before any snaxc dialect.
"""
import warnings

import xdsl.irdl.operations as _ops

warnings.filterwarnings("ignore", category=DeprecationWarning)

if not getattr(_ops.OpDef, "_verif_shim", False):
    _orig = _ops.OpDef.from_pyrdl

    def _patched(pyrdl_def):
        for k in pyrdl_def.mro():
            v = k.__dict__.get("irdl_options")
            if isinstance(v, list):
                setattr(k, "irdl_options", tuple(v))
        return _orig(pyrdl_def)

    _ops.OpDef.from_pyrdl = staticmethod(_patched)
    _ops.OpDef._verif_shim = True
