"""Fixed-width two's-complement evaluator for linalg.generic bodies (C18). Trusted base, deliberately small.

A body block is decoded into a straight-line `Program` (no xDSL objects inside), type-checked strictly
(the width rules of MLIR's arith dialect), and run on plain Python ints. Values are kept *unsigned*,
reduced mod 2**width; `signed(v, w)` gives the two's-complement reading.

kernel.mul/add/mac/qmac (everything implementing `Parsable`) is evaluated through its own
`equivalent_region` (the repository's definition of the kernel):
    value(kernel op) = F(values of its operands ..., value of the LAST argument of the enclosing body block)
where F is the function of the equivalent region (its arguments are: one per kernel operand, then one of
the result type = the output/accumulator element, which is how ParseLinalgBody builds the op:
operands = block.args[:-1], result type = type of block.args[-1]).

A body may also use values defined OUTSIDE of its block (function arguments, block arguments of an enclosing loop,
results of other operations). Such *captured* values are further free scalar inputs of the body: the caller lists them,
they are numbered directly after the block's own arguments (`Program.arg_widths` = block arguments + captured values,
`Program.nblock` = number of block arguments) and every input vector carries one value for each of them. The output /
accumulator element a kernel op reads is always the LAST BLOCK argument (`Program.out_ref`), never a captured value.

`kernel_reference` restates what each kernel is meant to compute (from the op names and from the expected
expansions in tests/filecheck/transforms/convert-kernel-to-linalg.mlir). `rescale_reference` restates the
documented limited lowering of kernel.rescale (LowerRescale docstring: one channel, no double rounding).
"""
from __future__ import annotations

from dataclasses import dataclass, field


class IllTyped(Exception):
    """The block (or the equivalent region of a kernel op inside it) violates arith's width rules."""


class KernelUndefined(IllTyped):
    """A kernel op whose equivalent region is ill-typed at the op's operand/result types."""


class Unsupported(Exception):
    """An op / type / value the evaluator does not model (harness limitation, never a violation)."""


def mask(w: int) -> int:
    return (1 << w) - 1


def signed(v: int, w: int) -> int:
    v &= mask(w)
    return v - (1 << w) if v >> (w - 1) else v


def wrap(v: int, w: int) -> int:
    return v & mask(w)


BINARY = ("addi", "subi", "muli", "shrsi", "shrui", "shli", "minsi", "maxsi", "minui", "maxui", "andi", "ori", "xori")


@dataclass
class Instr:
    kind: str  # one of BINARY, "extsi", "extui", "trunci", "const", "kernel"
    refs: tuple  # indices into the value table
    width: int  # result width
    param: object = None  # const: value (unsigned); kernel: (op name, Program of the equivalent region)

    def struct(self):
        p = self.param
        if self.kind == "kernel":
            p = (p[0], p[1].struct())
        return (self.kind, self.refs, self.width, p)


@dataclass
class Program:
    arg_widths: tuple  # widths of the block arguments followed by the widths of the captured (outside) values
    instrs: list = field(default_factory=list)
    yields: tuple = ()  # refs of the yielded values
    nblock: int | None = None  # number of block arguments (None: all of arg_widths, i.e. nothing captured)

    @property
    def n_block(self):
        return len(self.arg_widths) if self.nblock is None else self.nblock

    @property
    def out_ref(self):
        """Index of the output / accumulator element: the last BLOCK argument."""
        return self.n_block - 1

    def struct(self):
        """Hashable structural description: equal iff same ops, same wiring, same widths (and the same split of the inputs
        into block arguments and captured values)."""
        s = (self.arg_widths, tuple(i.struct() for i in self.instrs), self.yields)
        return s if self.n_block == len(self.arg_widths) else s + (self.n_block,)

    def kinds(self):
        return tuple(i.kind if i.kind != "kernel" else i.param[0] for i in self.instrs)

    def width_of(self, ref):
        n = len(self.arg_widths)
        return self.arg_widths[ref] if ref < n else self.instrs[ref - n].width

    def yield_widths(self):
        return tuple(self.width_of(r) for r in self.yields)


# ------------------------------------------------------------------------------------------ type checking


def check_instr(kind, ws, w):
    """Width rules. ws: operand widths, w: result width."""
    if kind in BINARY:
        if not (len(ws) == 2 and ws[0] == ws[1] == w):
            raise IllTyped(f"{kind}: operand widths {ws} result width {w}")
    elif kind in ("extsi", "extui"):
        if not (len(ws) == 1 and ws[0] < w):
            raise IllTyped(f"{kind}: {ws} -> {w} is not a widening")
    elif kind == "trunci":
        if not (len(ws) == 1 and ws[0] > w):
            raise IllTyped(f"trunci: {ws} -> {w} is not a narrowing")
    elif kind == "const":
        if ws:
            raise IllTyped("const with operands")
    else:
        raise Unsupported(kind)


def program_from_recipe(arg_widths, ops, yield_ref, cap_widths=()):
    """ops: list of [kind, [refs], result_width]. Used to type-check recipes before any IR exists.
    cap_widths: widths of captured outside values, numbered directly after the block arguments."""
    p = Program(tuple(arg_widths) + tuple(cap_widths), nblock=len(arg_widths) if cap_widths else None)
    for kind, refs, w in ops:
        n = len(p.arg_widths) + len(p.instrs)
        for r in refs:
            if not (0 <= r < n):
                raise IllTyped(f"operand ref {r} not defined before use")
        check_instr(kind, tuple(p.width_of(r) for r in refs), w)
        p.instrs.append(Instr(kind, tuple(refs), w))
    if not (0 <= yield_ref < len(p.arg_widths) + len(p.instrs)):
        raise IllTyped("yield ref out of range")
    p.yields = (yield_ref,)
    return p


# ------------------------------------------------------------------------------------------ decoding xDSL blocks


def _width(t):
    from xdsl.dialects.builtin import IndexType, IntegerType

    if isinstance(t, IntegerType):
        return t.width.data
    if isinstance(t, IndexType):
        return 64
    raise Unsupported(f"type {t}")


def _kind_table():
    from xdsl.dialects import arith

    tab = {}
    for kind, cls in (("addi", "AddiOp"), ("subi", "SubiOp"), ("muli", "MuliOp"), ("shrsi", "ShRSIOp"), ("shrui", "ShRUIOp"),
                      ("shli", "ShLIOp"), ("minsi", "MinSIOp"), ("maxsi", "MaxSIOp"), ("minui", "MinUIOp"), ("maxui", "MaxUIOp"),
                      ("andi", "AndIOp"), ("ori", "OrIOp"), ("xori", "XOrIOp"), ("extsi", "ExtSIOp"), ("extui", "ExtUIOp"),
                      ("trunci", "TruncIOp")):
        c = getattr(arith, cls, None)
        if c is not None:
            tab[c] = kind
    return tab


_KT = None


def program_from_block(block, captured=()):
    """Decode an xDSL block (linalg.generic body or a kernel's equivalent region) into a Program.
    captured: the SSA values defined outside of the block that the body may use (free inputs, numbered after the block
    arguments in the given order). An operand defined outside that is neither listed nor an integer constant is `Unsupported`.
    No width checking here; see `typecheck`."""
    from xdsl.dialects import arith, linalg
    from xdsl.dialects.builtin import IntegerAttr

    from snaxc.dialects.kernel import Parsable

    global _KT
    if _KT is None:
        _KT = _kind_table()

    captured = tuple(captured)
    p = Program(tuple(_width(a.type) for a in block.args) + tuple(_width(c.type) for c in captured),
                nblock=len(block.args) if captured else None)
    index = {a: i for i, a in enumerate(block.args)}
    for j, c in enumerate(captured):
        if c in index:
            raise Unsupported("captured value listed twice or is a block argument of the body")
        index[c] = len(block.args) + j

    def push(ins, res):
        p.instrs.append(ins)
        index[res] = len(p.arg_widths) + len(p.instrs) - 1
        return index[res]

    def ref(v):
        if v in index:
            return index[v]
        owner = v.owner
        if isinstance(owner, arith.ConstantOp) and isinstance(owner.value, IntegerAttr):
            w = _width(v.type)
            return push(Instr("const", (), w, wrap(owner.value.value.data, w)), v)
        raise Unsupported(f"operand defined by {getattr(owner, 'name', owner)} outside the block")

    seen_yield = False
    for op in block.ops:
        if seen_yield:
            raise Unsupported("op after the terminator")
        if isinstance(op, linalg.YieldOp):
            p.yields = tuple(ref(v) for v in op.operands)
            seen_yield = True
            continue
        if isinstance(op, arith.ConstantOp):
            if not isinstance(op.value, IntegerAttr):
                raise Unsupported("non-integer constant")
            w = _width(op.result.type)
            push(Instr("const", (), w, wrap(op.value.value.data, w)), op.result)
            continue
        if isinstance(op, Parsable):
            refs = tuple(ref(v) for v in op.operands)
            if len(op.results) != 1:
                raise Unsupported("kernel op with != 1 result")
            w = _width(op.results[0].type)
            sub = program_from_block(op.equivalent_region.block)
            if len(sub.arg_widths) != len(refs) + 1 or len(sub.yields) != 1:
                raise Unsupported(f"{op.name}: equivalent region has an unexpected signature")
            push(Instr("kernel", refs, w, (op.name, sub)), op.results[0])
            continue
        kind = _KT.get(type(op))
        if kind is None:
            raise Unsupported(f"op {op.name}")
        refs = tuple(ref(v) for v in op.operands)
        push(Instr(kind, refs, _width(op.results[0].type)), op.results[0])
    if not seen_yield:
        raise Unsupported("block without linalg.yield")
    return p


def typecheck(p: Program):
    """Raise IllTyped if an arith op breaks the width rules, KernelUndefined if a kernel op's equivalent region is
    ill-typed at the op's types (or does not fit the enclosing body: result width != output argument width)."""
    for ins in p.instrs:
        ws = tuple(p.width_of(r) for r in ins.refs)
        if ins.kind == "kernel":
            name, sub = ins.param
            try:
                typecheck(sub)
            except IllTyped as e:
                raise KernelUndefined(f"{name}: equivalent region ill-typed: {e}")
            if ws != sub.arg_widths[:-1] or sub.arg_widths[-1] != ins.width:
                raise KernelUndefined(f"{name}: equivalent region argument widths {sub.arg_widths} do not fit the op")
            if sub.yield_widths() != (ins.width,):
                raise KernelUndefined(f"{name}: equivalent region yields width {sub.yield_widths()}, result width {ins.width}")
            if p.arg_widths[p.out_ref] != ins.width:
                raise KernelUndefined(f"{name}: result width {ins.width} differs from the body's output argument width")
        else:
            check_instr(ins.kind, ws, ins.width)


# ------------------------------------------------------------------------------------------ evaluation


class Undefined(Exception):
    """Evaluation hit behaviour MLIR leaves undefined (shift amount >= width)."""


def _binary(kind, a, b, w):
    m = mask(w)
    if kind == "addi":
        return (a + b) & m
    if kind == "subi":
        return (a - b) & m
    if kind == "muli":
        return (a * b) & m
    if kind == "andi":
        return a & b
    if kind == "ori":
        return a | b
    if kind == "xori":
        return a ^ b
    if kind in ("shrsi", "shrui", "shli"):
        if b >= w:
            raise Undefined(f"{kind} by {b} at width {w}")
        if kind == "shrsi":
            return (signed(a, w) >> b) & m
        if kind == "shrui":
            return a >> b
        return (a << b) & m
    if kind == "minsi":
        return a if signed(a, w) <= signed(b, w) else b
    if kind == "maxsi":
        return a if signed(a, w) >= signed(b, w) else b
    if kind == "minui":
        return min(a, b)
    if kind == "maxui":
        return max(a, b)
    raise Unsupported(kind)


def run(p: Program, args):
    """args: ints (any sign); reduced to the argument widths. Returns the tuple of yielded values (unsigned)."""
    vals = [a & mask(w) for a, w in zip(args, p.arg_widths, strict=True)]
    out = vals[p.out_ref] if p.n_block else 0
    n = len(p.arg_widths)
    for ins in p.instrs:
        k = ins.kind
        if k == "const":
            v = ins.param
        elif k == "extsi":
            r = ins.refs[0]
            v = signed(vals[r], p.width_of(r)) & mask(ins.width)
        elif k == "extui":
            v = vals[ins.refs[0]]
        elif k == "trunci":
            v = vals[ins.refs[0]] & mask(ins.width)
        elif k == "kernel":
            sub = ins.param[1]
            v = run(sub, [vals[r] for r in ins.refs] + [out])[0]
        else:
            v = _binary(k, vals[ins.refs[0]], vals[ins.refs[1]], ins.width)
        vals.append(v)
    return tuple(vals[r] for r in p.yields)


def _chk_shift(b, w):
    if b >= w:
        raise Undefined(f"shift by {b} at width {w}")
    return b


def compile_program(p: Program):
    """The same semantics as `run`, as one generated Python function f(*masked_unsigned_args) -> tuple (about 10x faster).
    `run` stays the reference; callers cross-check the two on a few vectors (see `run_all`)."""
    n = len(p.arg_widths)
    names = [f"a{i}" for i in range(n)]
    env = {"_chk": _chk_shift}
    lines = [f"def f({', '.join(names)}):"]
    out = names[p.out_ref] if p.n_block else "0"

    def sx(x, w):  # signed reading of an unsigned value of width w
        s = 1 << (w - 1)
        return f"(({x} ^ {s}) - {s})"

    for j, ins in enumerate(p.instrs):
        v = f"v{n + j}"
        k, w = ins.kind, ins.width
        m = mask(w)
        a = names[ins.refs[0]] if ins.refs else None
        b = names[ins.refs[1]] if len(ins.refs) > 1 else None
        if k == "const":
            e = str(ins.param)
        elif k == "addi":
            e = f"({a} + {b}) & {m}"
        elif k == "subi":
            e = f"({a} - {b}) & {m}"
        elif k == "muli":
            e = f"({a} * {b}) & {m}"
        elif k == "andi":
            e = f"{a} & {b}"
        elif k == "ori":
            e = f"{a} | {b}"
        elif k == "xori":
            e = f"{a} ^ {b}"
        elif k == "extsi":
            e = f"{sx(a, p.width_of(ins.refs[0]))} & {m}"
        elif k == "extui":
            e = a
        elif k == "trunci":
            e = f"{a} & {m}"
        elif k == "shrsi":
            e = f"({sx(a, w)} >> _chk({b}, {w})) & {m}"
        elif k == "shrui":
            e = f"{a} >> _chk({b}, {w})"
        elif k == "shli":
            e = f"({a} << _chk({b}, {w})) & {m}"
        elif k == "minsi":
            s = 1 << (w - 1)
            e = f"{a} if ({a} ^ {s}) <= ({b} ^ {s}) else {b}"
        elif k == "maxsi":
            s = 1 << (w - 1)
            e = f"{a} if ({a} ^ {s}) >= ({b} ^ {s}) else {b}"
        elif k == "minui":
            e = f"min({a}, {b})"
        elif k == "maxui":
            e = f"max({a}, {b})"
        elif k == "kernel":
            env[f"k{j}"] = compile_program(ins.param[1])
            e = f"k{j}({', '.join([names[r] for r in ins.refs] + [out])})[0]"
        else:
            raise Unsupported(k)
        lines.append(f"    {v} = {e}")
        names.append(v)
    lines.append(f"    return ({''.join(names[r] + ', ' for r in p.yields)})")
    exec("\n".join(lines), env)  # noqa: S102  (source is generated from the decoded Program only)
    return env["f"]


def run_all(p: Program, vectors, crosscheck=8):
    """Outputs of p on every vector (masked unsigned tuples). The first `crosscheck` vectors are also run through the
    reference interpreter `run`; a disagreement is a harness bug (AssertionError), never a violation."""
    f = compile_program(p)
    outs = [f(*v) for v in vectors]
    step = max(1, len(vectors) // max(1, crosscheck))
    for i in range(0, len(vectors), step):
        if run(p, vectors[i]) != outs[i]:
            raise AssertionError(f"compiled evaluator disagrees with the reference interpreter on {vectors[i]}")
    return outs


# ------------------------------------------------------------------------------------------ references


def kernel_reference(name, widths, args):
    """What kernel `name` is meant to compute on the body's scalar inputs.
    widths: operand widths + [result width]; args: operand values + [output element], any sign convention.
    Returns the unsigned result at the result width, or None if no reference is stated for this kernel."""
    w = widths[-1]
    s = [signed(a, wd) for a, wd in zip(args, widths, strict=True)]
    if name == "kernel.mul":
        return (s[0] * s[1]) & mask(w)
    if name == "kernel.add":
        return (s[0] + s[1]) & mask(w)
    if name == "kernel.mac":  # out + lhs * rhs, narrow operands sign-extended
        return (s[2] + s[0] * s[1]) & mask(w)
    if name == "kernel.qmac":  # out + (lhs - zp_lhs) * (rhs - zp_rhs), narrow operands sign-extended
        return (s[4] + (s[0] - s[2]) * (s[1] - s[3])) & mask(w)
    return None


def rescale_reference(x, zp_in, zp_out, mult, shift, min_int, max_int, in_w=32, out_w=8):
    """clamp(trunc32((sext64(x - zp_in) * mult) >> shift) + zp_out, min, max) truncated to the output width.
    All intermediate widths as documented by LowerRescale: i32 subtraction, i64 product and arithmetic shift,
    i32 addition and clamp. Returns unsigned at out_w."""
    v = signed(signed(x, in_w) - signed(zp_in, 32), 32)
    v = signed(v * signed(mult, 64), 64)
    v = v >> shift  # arithmetic shift on a Python int
    v = signed(v, 32)
    v = signed(v + signed(zp_out, 32), 32)
    v = min(v, signed(max_int, 32))
    v = max(v, signed(min_int, 32))
    return v & mask(out_w)


# ------------------------------------------------------------------------------------------ input vectors


def corners(w):
    return (1 << (w - 1), mask(w), 0, 1, mask(w) >> 1)  # min, -1, 0, 1, max (unsigned encoding)


def corner_vectors(widths):
    import itertools

    return itertools.product(*[corners(w) for w in widths])


def splitmix_vectors(seed, widths, n):
    """n vectors derived deterministically from a (Hypothesis-drawn) 64-bit seed. Pure function of its arguments."""
    M = (1 << 64) - 1
    x = seed & M
    out = []
    for _ in range(n):
        vec = []
        for w in widths:
            x = (x + 0x9E3779B97F4A7C15) & M
            z = x
            z = ((z ^ (z >> 30)) * 0xBF58476D1CE4E5B9) & M
            z = ((z ^ (z >> 27)) * 0x94D049BB133111EB) & M
            z = z ^ (z >> 31)
            # a quarter of the draws are small magnitudes around 0 (sign-extension and wrap cases need both)
            if z & 3 == 0:
                z = ((z >> 2) & 0xFF) - 128
            vec.append(z & mask(w))
        out.append(tuple(vec))
    return out


def selftest():
    """Quick sanity checks of the evaluator (wrap-around, sign extension, shifts, clamp)."""
    p = program_from_recipe([8, 8, 32], [["extsi", [0], 32], ["extsi", [1], 32], ["muli", [3, 4], 32], ["addi", [2, 5], 32]], 6)
    assert run(p, [-128, -128, 1]) == (16385,)
    assert run(p, [0x80, 0x7F, 0]) == ((-128 * 127) & mask(32),)
    q = program_from_recipe([8, 8, 8], [["muli", [0, 1], 8], ["subi", [2, 3], 8]], 4)
    assert run(q, [16, 16, 1]) == (1,)
    assert run(q, [3, 5, 1]) == ((1 - 15) & 0xFF,)
    assert _binary("shrsi", (-8) & mask(64), 1, 64) == (-4) & mask(64)
    assert _binary("minsi", 0xFF, 1, 8) == 0xFF and _binary("maxsi", 0xFF, 1, 8) == 1
    assert _binary("minui", 0xFF, 1, 8) == 1
    assert rescale_reference(100, 0, 0, 1 << 30, 30, -128, 127) == 100
    assert rescale_reference(1000, 0, 0, 1 << 30, 30, -128, 127) == 127
    assert rescale_reference(-1000, 0, 0, 1 << 30, 30, -128, 127) == 0x80
    assert rescale_reference(-3, 0, 0, 1, 1, -128, 127) == (-2) & 0xFF  # arithmetic shift rounds towards -inf
    assert kernel_reference("kernel.qmac", [8, 8, 32, 32, 32], [-1, 2, 1, 1, 5]) == (5 + (-2) * 1) & mask(32)
    for prog, ws in ((p, [8, 8, 32]), (q, [8, 8, 8])):
        vs = list(corner_vectors(ws)) + splitmix_vectors(5, ws, 50)
        assert run_all(prog, vs, crosscheck=len(vs)) == [run(prog, v) for v in vs]
    try:
        program_from_recipe([8, 16, 16], [["muli", [0, 1], 16]], 3)
        raise AssertionError("ill-typed recipe accepted")
    except IllTyped:
        pass
    # captured values: numbered after the block arguments, free inputs; the accumulator stays the last block argument
    c = program_from_recipe([8, 8, 8], [["muli", [3, 1], 8], ["addi", [4, 5], 8]], 6, cap_widths=[8, 8])
    assert c.out_ref == 2 and c.n_block == 3 and c.struct() != q.struct()
    assert run(c, [2, 3, 100, 5, 7]) == ((5 * 3 + 7) & 0xFF,)
    assert compile_program(c)(2, 3, 100, 5, 7) == ((5 * 3 + 7) & 0xFF,)
    return True
