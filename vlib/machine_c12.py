"""C12 machine: symbolic buffer contents per logical element (DESIGN.md 2.3 "Symbolic buffer machine"), self-contained.

* A *buffer* is a root object (function argument, memref.alloc, memref.global, dense arith.constant). It holds one
  interned symbolic term per LOGICAL element of its own type (row-major over the shape). A memref SSA value is a
  *view*: (buffer, shape, for every logical element of the view the cell of the buffer it denotes).
* memref.subview selects cells of its source view. memref.memory_space_cast and snax.layout_cast are views of their
  source (aliases, same logical element -> same cell): this is the meaning of a cast BEFORE it is materialised, and any
  cast that survives the pass keeps that meaning. memref.copy moves terms logical element by logical element.
* The only place where a physical layout matters is where the same bytes are interpreted under two layouts: the initial
  value of a memref.global / a dense arith.constant. There the logical element idx is the stored value at position
  addr(idx) of the layout of the global's / constant's type (reference: vlib.gen_tsl.addr; no layout = row-major).
* Accelerator ops (linalg.generic, dart.operation/schedule/access_pattern) carrying a `c12.tag` attribute read all
  elements of their inputs (recorded in the trace) and write f(tag, output k, element, all input terms) to every
  element of every output. Any other tagged op (test.op) is opaque: it reads all its memref operands and then writes
  g(tag, operand k, element, all terms read) to every one of them.
* A fresh memref.alloc holds POISON. Terms computed from POISON are tainted. A reference run that reads tainted data
  has no defined expectation at that place (the comparison accepts anything there); a transformed run that reads
  POISON where the reference run read defined data is a mismatch like any other.
Terms are interned in one table shared by the two runs, so term equality is integer equality.
"""
from __future__ import annotations

import numpy as np

from . import gen_tsl as T
from .interp import Interp, InterpError
from .machines import Machine

DYN = -9223372036854775808
TAG = "c12.tag"
ACC_OPS = ("linalg.generic", "dart.operation", "dart.schedule", "dart.access_pattern")


class Terms:
    def __init__(self):
        self.table: dict = {}
        self.back: list = []
        self.tainted: set = set()
        self.poison = self.mk(("poison",), taint=True)

    def mk(self, key, taint=False):
        i = self.table.get(key)
        if i is None:
            i = len(self.back)
            self.table[key] = i
            self.back.append(key)
            if taint:
                self.tainted.add(i)
        return i

    def is_tainted(self, t):
        return t in self.tainted

    def show(self, t, depth=2):
        k = self.back[t]
        if depth <= 0 or k[0] in ("poison", "arg", "val", "uninit", "cst"):
            return ":".join(str(x) for x in k)
        if k[0] in ("f", "g"):
            return f"{k[0]}(tag={k[1]},opnd={k[2]},elt={k[3]},in=#{k[4]})"
        return str(k)[:80]


class Buffer:
    __slots__ = ("kind", "name", "shape", "cells", "serial", "ts", "direct")

    def __init__(self, kind, name, shape, cells, serial=0):
        self.kind = kind
        self.name = name
        self.shape = tuple(shape)
        self.cells = cells  # list of terms, row-major over shape
        self.serial = serial
        self.ts = [0] * len(cells)  # when the data in the cell was produced (0 = initial content)
        self.direct = [False] * len(cells)  # the cell was last written by a tagged op (not by a copy)

    def __repr__(self):
        return f"{self.kind}:{self.name}#{self.serial}"


class View:
    __slots__ = ("buf", "shape", "idx")

    def __init__(self, buf, shape, idx):
        self.buf = buf
        self.shape = tuple(shape)
        self.idx = idx  # np.int64 array, flat, row-major over shape: cell numbers of buf

    def read(self):
        c = self.buf.cells
        return tuple(c[i] for i in self.idx)

    def write(self, terms, now):
        """Write by a tagged op at time `now`."""
        b = self.buf
        for i, t in zip(self.idx, terms):
            b.cells[i] = t
            b.ts[i] = now
            b.direct[i] = True

    def __repr__(self):
        return f"view<{self.buf!r} {list(self.shape)}>"


def whole(buf):
    n = int(np.prod(buf.shape)) if buf.shape else 1
    return View(buf, buf.shape, np.arange(n, dtype=np.int64))


def arg_buffer(terms: Terms, argno: int, shape):
    n = int(np.prod(shape)) if shape else 1
    return Buffer("arg", f"arg{argno}", shape, [terms.mk(("arg", argno, i)) for i in range(n)])


def tsl_recipe_of(layout_attr):
    """None for 'no layout'; a gen_tsl layout recipe for a static TSL attribute; otherwise raises Unsupported."""
    from xdsl.dialects import builtin

    if isinstance(layout_attr, builtin.NoneAttr):
        return None
    from snaxc.dialects.tsl import TiledStridedLayoutAttr

    if isinstance(layout_attr, TiledStridedLayoutAttr):
        r = T.tsl_to_recipe(layout_attr.data)
        if T.is_dynamic(r):
            raise Unsupported("dynamic TSL on a buffer with initial value")
        return r
    raise Unsupported(f"layout {layout_attr} on a buffer with initial value")


class Unsupported(InterpError):
    pass


class ShapeMismatch(InterpError):
    """memref.copy between views of different run-time shape (e.g. a stand-in buffer sized differently from its original)."""


def decode_dense(values, shape, layout_recipe):
    """Logical contents (row-major list) of a buffer whose raw storage holds `values` (storage order) and whose type has
    `layout_recipe` (None = row-major). Returns (list, problems). An element whose address lies outside the stored data
    gets None."""
    n = int(np.prod(shape)) if shape else 1
    if layout_recipe is None:
        if len(values) != n:
            return [None] * n, [f"initial value has {len(values)} elements, type has {n}"]
        return list(values), []
    problems = []
    if T.shape_of(layout_recipe) != list(shape):
        problems.append(f"layout describes shape {T.shape_of(layout_recipe)}, memref type has shape {list(shape)}")
        # decode what can be decoded: index by digits of the memref shape through the reference address function
    out = []
    for idx in np.ndindex(*shape):
        a = T.addr(layout_recipe, idx)
        if 0 <= a < len(values):
            out.append(values[a])
        else:
            out.append(None)
            if len(problems) < 3:
                problems.append(f"logical index {tuple(int(i) for i in idx)} has address {a}, outside the {len(values)} stored elements")
    return out, problems


def base_global_name(name: str) -> str:
    while name.endswith("_transformed"):
        name = name[: -len("_transformed")]
    return name


class BufMachine(Machine):
    def __init__(self, module, terms: Terms):
        self.module = module
        self.terms = terms
        self.trace: list = []  # (tag, kind, (tuple of terms per read operand))
        self.problems: list = []  # (signature suffix, text)
        self.globals: dict[str, Buffer] = {}
        self.global_ops = {}
        self.nalloc = 0
        self.ncopies = 0
        self.clobbers = 0
        self.now = 0
        self.root_allocs = None
        for op in module.walk():
            if op.name == "memref.global":
                self.global_ops[op.sym_name.data] = op

    # ---------------------------------------------------------------- buffers
    def _global(self, name, res_type):
        from xdsl.dialects import builtin

        buf = self.globals.get(name)
        gop = self.global_ops.get(name)
        if gop is None:
            self.problems.append(("get_global-of-missing-symbol", f"memref.get_global @{name}: no memref.global with that name"))
            if buf is None:
                shape = res_type.get_shape()
                n = int(np.prod(shape))
                buf = Buffer("global", name, shape, [self.terms.mk(("dangling", name, i)) for i in range(n)])
                self.globals[name] = buf
            return buf
        if buf is not None:
            return buf
        gtype = gop.type
        shape = tuple(gtype.get_shape())
        n = int(np.prod(shape)) if shape else 1
        iv = gop.initial_value
        base = base_global_name(name)
        if isinstance(iv, builtin.DenseIntOrFPElementsAttr):
            vals = list(iv.get_values())
            logical, probs = decode_dense(vals, shape, tsl_recipe_of(gtype.layout))
            for p in probs:
                self.problems.append(("global-initial-value-undecodable", f"@{name}: {p}"))
            cells = [self.terms.mk(("val", v)) if v is not None else self.terms.mk(("nodata", base, i)) for i, v in enumerate(logical)]
        else:
            cells = [self.terms.mk(("uninit", base, i)) for i in range(n)]
        buf = Buffer("global", name, shape, cells)
        self.globals[name] = buf
        return buf

    def constant(self, op, attr):
        from xdsl.dialects import builtin

        t = op.results[0].type
        if not isinstance(t, builtin.MemRefType) or not isinstance(attr, builtin.DenseIntOrFPElementsAttr):
            raise InterpError(f"unsupported constant {attr}")
        shape = tuple(t.get_shape())
        logical, probs = decode_dense(list(attr.get_values()), shape, tsl_recipe_of(t.layout))
        for p in probs:
            self.problems.append(("constant-undecodable", p))
        tag = op.attributes.get(TAG)
        nm = f"cst{tag.value.data}" if tag is not None else "cst"
        cells = [self.terms.mk(("val", v)) if v is not None else self.terms.mk(("nodata", nm, i)) for i, v in enumerate(logical)]
        return whole(Buffer("const", nm, shape, cells))

    # ---------------------------------------------------------------- ops
    def exec(self, op, operands, env):
        n = op.name
        if n == "memref.alloc":
            t = op.results[0].type
            dyn = iter(operands)
            shape = tuple(int(next(dyn)) if s == DYN or s < 0 else s for s in t.get_shape())
            self.nalloc += 1
            cnt = int(np.prod(shape)) if shape else 1
            return [whole(Buffer("alloc", f"alloc{self.nalloc}", shape, [self.terms.poison] * cnt, self.nalloc))]
        if n == "memref.get_global":
            name = op.name_.root_reference.data
            buf = self._global(name, op.results[0].type)
            rt = op.results[0].type
            if tuple(rt.get_shape()) != buf.shape:
                self.problems.append(("get_global-shape-differs-from-global", f"@{name}: {list(rt.get_shape())} vs {list(buf.shape)}"))
                raise InterpError("get_global shape mismatch")
            gop = self.global_ops.get(name)
            if gop is not None and gop.type.layout != rt.layout:
                self.problems.append(("get_global-layout-differs-from-global", f"@{name}: {rt.layout} vs {gop.type.layout}"))
                # the consumers interpret the stored bytes through the layout of the get_global's type: logical element idx of the
                # result is the element of the global that lies at address addr_result(idx)
                try:
                    lg, lr = tsl_recipe_of(gop.type.layout), tsl_recipe_of(rt.layout)
                except Unsupported:
                    return [whole(buf)]
                ag = lambda r_, idx: T.addr(r_, idx) if r_ is not None else int(np.ravel_multi_index(idx, buf.shape))  # noqa: E731
                where = {ag(lg, idx): k for k, idx in enumerate(np.ndindex(*buf.shape))}
                view_idx = []
                for idx in np.ndindex(*buf.shape):
                    k = where.get(ag(lr, idx))
                    if k is None:
                        return [whole(buf)]
                    view_idx.append(k)
                return [View(buf, buf.shape, np.array(view_idx, dtype=np.int64))]
            return [whole(buf)]
        if n == "memref.subview":
            return [self._subview(op, operands)]
        if n in ("memref.memory_space_cast", "snax.layout_cast", "memref.cast"):
            v = operands[0]
            rs = tuple(op.results[0].type.get_shape())
            if any(a != b for a, b in zip(rs, v.shape) if a != DYN and a >= 0) or len(rs) != len(v.shape):
                raise InterpError(f"{n}: shape changes {v.shape} -> {rs}")
            return [v]
        if n == "memref.copy":
            s, d = operands
            if s.shape != d.shape:
                raise ShapeMismatch(f"memref.copy from a view of run-time shape {list(s.shape)} ({s.buf!r}) to one of shape {list(d.shape)} ({d.buf!r})")
            self.ncopies += 1
            self._copy(s, d)
            return []
        if n == "memref.dim":
            v, i = operands
            if not 0 <= i < len(v.shape):
                raise InterpError(f"memref.dim: index {i} out of range for rank {len(v.shape)}")
            return [v.shape[i]]
        if n == "memref.dealloc":
            return []
        tag = op.attributes.get(TAG)
        if tag is not None:
            return self._tagged(op, operands, tag.value.data)
        return NotImplemented

    def _copy(self, s, d):
        sb, db = s.buf, d.buf
        data = [(sb.cells[i], sb.ts[i]) for i in s.idx]
        clobber = False
        standin = db.kind == "alloc" and self.root_allocs is not None and db.serial > self.root_allocs
        for j, (t, ts) in zip(d.idx, data):
            if standin and db.direct[j] and db.ts[j] > ts:
                clobber = True
            db.cells[j] = t
            db.ts[j] = ts
            db.direct[j] = False
        if clobber:
            # a copy into a buffer standing in for a cast replaced data that a tagged op had written there later than the
            # copied data was produced: the op's result is lost
            self.clobbers += 1

    def _subview(self, op, operands):
        src = operands[0]
        dyn = list(operands[1:])
        no, ns = len(op.offsets), len(op.sizes)
        d_off, d_siz, d_str = dyn[:no], dyn[no:no + ns], dyn[no + ns:]

        def merge(static, dynamic):
            it = iter(dynamic)
            return [int(next(it)) if v == DYN else int(v) for v in static.get_values()]

        offs = merge(op.static_offsets, d_off)
        sizes = merge(op.static_sizes, d_siz)
        strides = merge(op.static_strides, d_str)
        arr = src.idx.reshape(src.shape)
        sl = []
        for o, s, st, dim in zip(offs, sizes, strides, src.shape):
            last = o + (s - 1) * st
            if o < 0 or last >= dim or st <= 0:
                raise InterpError(f"subview out of bounds: offset {o} size {s} stride {st} in dim of {dim}")
            sl.append(slice(o, last + 1, st))
        sub = arr[tuple(sl)]
        rt = op.results[0].type
        rshape = tuple(sizes)
        if len(rt.get_shape()) != len(rshape):
            raise InterpError("rank-reducing subview not modelled")
        return View(src.buf, rshape, np.ascontiguousarray(sub).reshape(-1))

    def _tagged(self, op, operands, tag):
        n = op.name
        mem = [(k, v) for k, v in enumerate(operands) if isinstance(v, View)]
        if n in ACC_OPS:
            seg = op.properties.get("operandSegmentSizes") or op.attributes.get("operandSegmentSizes")
            sizes = [int(x) for x in seg.get_values()]
            nin = sizes[0]
            ins = [(k, v) for k, v in mem if k < nin]
            outs = [(k, v) for k, v in mem if k >= nin]
            scal = tuple((k, v) for k, v in enumerate(operands) if not isinstance(v, View))
            read = tuple(v.read() for _, v in ins)
            self.trace.append((tag, n, read, tuple(k for k, _ in ins), tuple(v.shape for _, v in mem)))
            taint = any(self.terms.is_tainted(t) for r in read for t in r)
            dig = self.terms.mk(("in", read, scal), taint=taint)
            self.now += 1
            for k, v in outs:
                cnt = len(v.idx)
                v.write([self.terms.mk(("f", tag, k, e, dig), taint=taint) for e in range(cnt)], self.now)
        else:
            read = tuple(v.read() for _, v in mem)
            self.trace.append((tag, n, read, tuple(k for k, _ in mem), tuple(v.shape for _, v in mem)))
            taint = any(self.terms.is_tainted(t) for r in read for t in r)
            dig = self.terms.mk(("in", read), taint=taint)
            self.now += 1
            for k, v in mem:
                v.write([self.terms.mk(("g", tag, k, e, dig), taint=taint) for e in range(len(v.idx))], self.now)
        # results (tensors are never generated): opaque ints
        return [0 for _ in op.results]


# ------------------------------------------------------------------------------------------------------------------
# running and comparing


class Run:
    def __init__(self, machine, returned, arg_bufs):
        self.m = machine
        self.returned = returned
        self.arg_bufs = arg_bufs


def run(module, fname, terms: Terms, arg_spec, step_budget=20000, root_allocs=None) -> Run:
    """arg_spec: list of ("mem", shape) | ("int", value) in function argument order.
    root_allocs: the first so many executed memref.alloc are buffers of the input program; later ones stand in for casts."""
    m = BufMachine(module, terms)
    m.root_allocs = root_allocs
    it = Interp(module, m, step_budget=step_budget)
    args = []
    bufs = []
    for k, a in enumerate(arg_spec):
        if a[0] == "mem":
            b = arg_buffer(terms, k, tuple(a[1]))
            bufs.append(b)
            args.append(whole(b))
        else:
            args.append(int(a[1]))
    ret = it.call(fname, args)
    for name in list(m.global_ops):  # globals are externally visible whether or not this run touched them
        m._global(name, None)
    return Run(m, ret, bufs)


def _cmp_terms(terms: Terms, exp, got):
    """First position where a defined expectation is not met, or None."""
    if len(exp) != len(got):
        return ("length", len(exp), len(got))
    for i, (a, b) in enumerate(zip(exp, got)):
        if a != b and not terms.is_tainted(a):
            return (i, terms.show(a), terms.show(b))
    return None


def compare(terms: Terms, ref: Run, out: Run):
    """List of mismatches (kind, detail) between the reference run (casts are views) and the transformed run."""
    mis = []
    ta, tb = ref.m.trace, out.m.trace
    for k, (ea, eb) in enumerate(zip(ta, tb)):
        if ea[0] != eb[0] or ea[1] != eb[1] or ea[3] != eb[3]:
            mis.append(("op-sequence-differs", dict(position=k, reference=[ea[0], ea[1]], transformed=[eb[0], eb[1]])))
            return mis
        if ea[4] != eb[4]:
            mis.append(("operand-has-another-run-time-shape", dict(event=k, tag=ea[0], op=ea[1], expected=[list(x) for x in ea[4]],
                                                                   got=[list(x) for x in eb[4]])))
            return mis
        for j, (ra, rb) in enumerate(zip(ea[2], eb[2])):
            d = _cmp_terms(terms, ra, rb)
            if d is not None:
                stale = "reads-unfilled-buffer" if (d[0] != "length" and d[2].startswith("poison")) else "reads-different-data"
                mis.append((stale, dict(event=k, tag=ea[0], op=ea[1], operand=ea[3][j], element=d[0], expected=d[1], got=d[2])))
                return mis
    if len(ta) != len(tb):
        mis.append(("op-sequence-differs", dict(reference_events=len(ta), transformed_events=len(tb))))
        return mis
    # externally visible buffers: arguments
    for ba, bb in zip(ref.arg_bufs, out.arg_bufs):
        d = _cmp_terms(terms, ba.cells, bb.cells)
        if d is not None:
            mis.append(("argument-ends-with-different-data", dict(buffer=ba.name, element=d[0], expected=d[1], got=d[2])))
            break
    # globals of the input program (the pass renames a re-laid-out global to <name>_transformed)
    outg = {}
    for name, b in out.m.globals.items():
        outg.setdefault(base_global_name(name), []).append(b)
    for name, ba in ref.m.globals.items():
        for bb in outg.get(name, []):
            d = _cmp_terms(terms, ba.cells, bb.cells)
            if d is not None:
                mis.append(("global-ends-with-different-data", dict(buffer=name, seen_as=bb.name, element=d[0], expected=d[1], got=d[2])))
                break
        if name not in outg:
            mis.append(("global-disappeared", dict(buffer=name)))
    # returned memrefs
    for k, (va, vb) in enumerate(zip(ref.returned, out.returned)):
        if isinstance(va, View) != isinstance(vb, View):
            mis.append(("returned-value-kind-differs", dict(result=k)))
            continue
        if isinstance(va, View):
            if va.shape != vb.shape:
                mis.append(("returned-shape-differs", dict(result=k, expected=list(va.shape), got=list(vb.shape))))
                continue
            d = _cmp_terms(terms, va.read(), vb.read())
            if d is not None:
                mis.append(("returned-buffer-holds-different-data", dict(result=k, element=d[0], expected=d[1], got=d[2])))
    return mis
