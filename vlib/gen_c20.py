"""Recipes, MLIR builder and Hypothesis strategies for C20 (PHS merge/decode histories). Recipes are plain JSON.

history recipe:
  {"ty": "i32", "k": 3,                      element type, number of data inputs every kernel uses
   "kernels": [ {"ops": [[name, s0, s1], ...],  1..4 binary ops; source s: 0..k-1 = data input, k+j = result of op j (< own index)
                 "ret": s,                       yielded source (usually a result, rarely a data input)
                 "dead": [0/1]*(k+1)},           dead[i]=1: an unused block argument precedes input i; dead[k]=1: an unused
                ...],                            trailing block argument. The last block argument is the linalg `outs` argument.
   "vecs": [[n]*k, ...],                     explicit data vectors (ints; for floats grid index, value = n/2)
   "seed": int}                              seed of the deterministic (splitmix64) expansion to ~96 more vectors
"""
from __future__ import annotations

import itertools

import numpy as np
from hypothesis import strategies as st

INT_OPS = ["addi", "subi", "muli", "andi", "ori", "xori", "maxsi", "minsi"]
FLT_OPS = ["addf", "subf", "mulf"]
NONCOMM = ("subi", "subf")
INT_TYPES = ["i8", "i16", "i32", "i64"]
FLT_TYPES = ["f32", "f64"]
MAX_OPS = 4
FGRID = 8  # float grid: n/2 for n in [-FGRID, FGRID]


def is_float(ty: str) -> bool:
    return ty.startswith("f")


def ops_for(ty: str):
    return FLT_OPS if is_float(ty) else INT_OPS


def weighted_ops_for(ty: str):
    """generation weights: the non-commutative op three times as likely (operand order matters only there)."""
    return ["addf", "subf", "subf", "mulf"] if is_float(ty) else INT_OPS + ["subi", "subi"]


# ------------------------------------------------------------------------------------------ domain check

def check_recipe(r) -> str | None:
    """None if the recipe is inside the stated domain, else the reason."""
    ty, k = r["ty"], r["k"]
    if ty not in INT_TYPES + FLT_TYPES or not (2 <= k <= 4) or not (1 <= len(r["kernels"]) <= 8):
        return "type/k/history length outside the domain"
    names = ops_for(ty)
    for kern in r["kernels"]:
        ops = kern["ops"]
        if not (1 <= len(ops) <= MAX_OPS):
            return "op count outside 1..4"
        used = set()
        for j, (name, s0, s1) in enumerate(ops):
            if name not in names:
                return "op not in the alphabet of the element type"
            for s in (s0, s1):
                if not (0 <= s < k + j):
                    return "source out of range"
                used.add(s)
        if not (0 <= kern["ret"] < k + len(ops)):
            return "yield source out of range"
        used.add(kern["ret"])
        if not all(i in used for i in range(k)):
            return "kernel does not use all k data inputs (operand counts would differ; decode documents equal counts)"
        if len(kern["dead"]) != k + 1 or any(d not in (0, 1) for d in kern["dead"]):
            return "bad dead mask"
    for v in r["vecs"]:
        if len(v) != k:
            return "vector arity"
    return None


# ------------------------------------------------------------------------------------------ MLIR text

def block_args(k, dead):
    """[(ssa name, used input index or None)] for the generic body."""
    out = []
    nd = 0
    for i in range(k):
        if dead[i]:
            out.append((f"%d{nd}", None))
            nd += 1
        out.append((f"%x{i}", i))
    if dead[k]:
        out.append((f"%d{nd}", None))
    return out


def history_text(r) -> str:
    ty, k = r["ty"], r["k"]
    tt = f"tensor<4x{ty}>"
    funcs = []
    for n, kern in enumerate(r["kernels"]):
        bargs = block_args(k, kern["dead"])
        na = len(bargs)
        targs = [f"%t{i}" for i in range(na)]
        maps = ", ".join(["affine_map<(d0) -> (d0)>"] * na)
        src = {i: f"%x{i}" for i in range(k)}
        lines = []
        for j, (name, s0, s1) in enumerate(kern["ops"]):
            src[k + j] = f"%v{j}"
            lines.append(f"      %v{j} = arith.{name} {src[s0]}, {src[s1]} : {ty}")
        lines.append(f"      linalg.yield {src[kern['ret']]} : {ty}")
        funcs.append(
            f"  func.func @k{n}({', '.join(f'{t}: {tt}' for t in targs)}) -> {tt} {{\n"
            f"    %r = linalg.generic {{indexing_maps = [{maps}], iterator_types = [\"parallel\"]}} "
            f"ins({', '.join(targs[:-1])} : {', '.join([tt] * (na - 1))}) outs({targs[-1]} : {tt}) "
            f"attrs = {{phs_acc = @acc}} {{\n"
            f"    ^bb0({', '.join(f'{a}: {ty}' for a, _ in bargs)}):\n" + "\n".join(lines) + "\n"
            f"    }} -> {tt}\n"
            f"    func.return %r : {tt}\n"
            f"  }}"
        )
    return "builtin.module {\n" + "\n".join(funcs) + "\n}\n"


# ------------------------------------------------------------------------------------------ data vectors

def _splitmix64(x):
    x = (x + 0x9E3779B97F4A7C15) & 0xFFFFFFFFFFFFFFFF
    z = x
    z = ((z ^ (z >> 30)) * 0xBF58476D1CE4E5B9) & 0xFFFFFFFFFFFFFFFF
    z = ((z ^ (z >> 27)) * 0x94D049BB133111EB) & 0xFFFFFFFFFFFFFFFF
    return x, z ^ (z >> 31)


def data_matrix(r, n_expand=96):
    """(N, k) numpy matrix of the element dtype: 5^k corner combinations + explicit vectors + expanded vectors."""
    ty, k = r["ty"], r["k"]
    if is_float(ty):
        dt = np.float32 if ty == "f32" else np.float64
        corners = [-float(FGRID) / 2, -1.0, 0.0, 1.0, float(FGRID) / 2]
        rows = [list(c) for c in itertools.product(corners, repeat=k)]
        rows += [[max(-FGRID, min(FGRID, n)) / 2.0 for n in v] for v in r["vecs"]]
        state = r["seed"] & 0xFFFFFFFFFFFFFFFF
        for _ in range(n_expand):
            row = []
            for _ in range(k):
                state, z = _splitmix64(state)
                row.append((z % (2 * FGRID + 1) - FGRID) / 2.0)
            rows.append(row)
        return np.array(rows, dtype=dt)
    w = int(ty[1:])
    lo, hi = -(1 << (w - 1)), (1 << (w - 1)) - 1
    dt = {8: np.int8, 16: np.int16, 32: np.int32, 64: np.int64}[w]

    def wrap(n):
        n &= (1 << w) - 1
        return n - (1 << w) if n > hi else n

    corners = [lo, -1, 0, 1, hi]
    rows = [list(c) for c in itertools.product(corners, repeat=k)]
    rows += [[wrap(n) for n in v] for v in r["vecs"]]
    state = r["seed"] & 0xFFFFFFFFFFFFFFFF
    for i in range(n_expand):
        row = []
        for _ in range(k):
            state, z = _splitmix64(state)
            # a third small values, a third full range, a third near the extremes
            m = i % 3
            if m == 0:
                row.append(wrap(z % 17 - 8))
            elif m == 1:
                row.append(wrap(z))
            else:
                row.append(wrap((lo if z & 1 else hi) + (((z >> 1) % 9) - 4)))
        rows.append(row)
    return np.array(rows, dtype=np.int64).astype(dt) if w < 64 else np.array(rows, dtype=np.int64)


# ------------------------------------------------------------------------------------------ strategies

def _used_inputs(k, ops):
    u = set()
    for _, s0, s1 in ops:
        u.add(s0)
        u.add(s1)
    return [i for i in range(k) if i in u]


def _cover(draw, k, ops):
    """Make every data input appear in some operand slot (keeps already unique uses)."""
    ops = [list(o) for o in ops]
    for _ in range(k):
        cnt = {}
        for _, s0, s1 in ops:
            cnt[s0] = cnt.get(s0, 0) + 1
            cnt[s1] = cnt.get(s1, 0) + 1
        missing = [i for i in range(k) if i not in cnt]
        if not missing:
            break
        # slots whose source is a result or an input used more than once may be overwritten
        slots = [(j, p) for j, o in enumerate(ops) for p in (1, 2) if o[p] >= k or cnt[o[p]] > 1]
        j, p = draw(st.sampled_from(slots))
        ops[j][p] = missing[0]
    return ops


def _src(draw, k, j):
    """source for an operand of op j: bias towards the previous result and the inputs."""
    if j > 0 and draw(st.integers(0, 9)) < 4:
        return k + j - 1
    return draw(st.integers(0, k + j - 1))


def _dead(draw, k):
    d = [1 if draw(st.integers(0, 11)) == 0 else 0 for _ in range(k)]
    d.append(0 if draw(st.integers(0, 5)) == 0 else 1)
    return d


def _fresh(draw, k, names):
    nops = draw(st.integers(max(1, k - 1), MAX_OPS))
    ops = []
    for j in range(nops):
        ops.append([draw(st.sampled_from(names)), _src(draw, k, j), _src(draw, k, j)])
    ops = _cover(draw, k, ops)
    ret = k + nops - 1 if draw(st.integers(0, 7)) else draw(st.integers(k, k + nops - 1))
    if draw(st.integers(0, 19)) == 0:
        ret = draw(st.integers(0, k - 1))  # rare: the body yields a data input directly
    return dict(ops=ops, ret=ret, dead=_dead(draw, k))


def _mutate(draw, base, k, names):
    ops = [list(o) for o in base["ops"]]
    ret = base["ret"]
    dead = list(base["dead"])
    nmut = draw(st.integers(1, 2))
    for _ in range(nmut):
        kind = draw(st.sampled_from(["swap", "swap", "rename", "rename", "reroute", "reroute", "append", "drop", "ret", "dup", "dead"]))
        j = draw(st.integers(0, len(ops) - 1))
        if kind == "swap":
            ops[j][1], ops[j][2] = ops[j][2], ops[j][1]
        elif kind == "rename":
            ops[j][0] = draw(st.sampled_from(names))
        elif kind == "reroute":
            p = draw(st.integers(1, 2))
            ops[j][p] = draw(st.integers(0, k + j - 1))
        elif kind == "append" and len(ops) < MAX_OPS:
            jn = len(ops)
            a, b = k + jn - 1, _src(draw, k, jn)
            if draw(st.booleans()):
                a, b = b, a
            ops.append([draw(st.sampled_from(names)), a, b])
            ret = k + jn
        elif kind == "drop" and len(ops) > max(1, k - 1):
            ops.pop()
            if ret >= k + len(ops):
                ret = k + len(ops) - 1
        elif kind == "ret":
            ret = draw(st.integers(k, k + len(ops) - 1))
        elif kind == "dead":
            dead = _dead(draw, k)
    ops = _cover(draw, k, ops)
    return dict(ops=ops, ret=ret, dead=dead)


@st.composite
def history(draw, tier="quick"):
    flt = draw(st.integers(0, 9)) < 3
    ty = draw(st.sampled_from(FLT_TYPES if flt else INT_TYPES))
    names = weighted_ops_for(ty)
    k = draw(st.sampled_from([2, 2, 2, 3, 3, 4]))
    n = draw(st.sampled_from([1, 2, 2, 3, 3, 3, 4, 4, 5, 5, 6, 7, 8] if tier == "thorough" else [1, 2, 2, 3, 3, 3, 4, 4, 5, 5]))
    kernels = []
    if n >= 3 and draw(st.integers(0, 3)) == 0:
        # routing family: one kernel and variants that feed ONE operand slot from different sources (inputs and earlier results, in any
        # order): several routings pile up on one port of the merged element (stacked muxes)
        base = _fresh(draw, k, names)
        j = draw(st.integers(0, len(base["ops"]) - 1))
        pslot = draw(st.integers(1, 2))
        sources = list(draw(st.permutations(list(range(k + j)))))
        kernels.append(base)
        for src in sources[: n - 1]:
            ops = [list(o) for o in base["ops"]]
            ops[j][pslot] = src
            kernels.append(dict(ops=_cover(draw, k, ops), ret=base["ret"], dead=list(base["dead"])))
        if draw(st.booleans()):
            kernels = list(draw(st.permutations(kernels)))
        n = 0
    for _ in range(n):
        if kernels and draw(st.integers(0, 9)) < 6:
            base = draw(st.sampled_from(kernels))
            kernels.append(_mutate(draw, base, k, names))
        else:
            kernels.append(_fresh(draw, k, names))
    if is_float(ty):
        elem = st.integers(-FGRID, FGRID)
    else:
        w = int(ty[1:])
        lo, hi = -(1 << (w - 1)), (1 << (w - 1)) - 1
        elem = st.one_of(st.integers(-4, 4), st.integers(lo, hi), st.sampled_from([lo, lo + 1, hi - 1, hi]))
    vecs = draw(st.lists(st.lists(elem, min_size=k, max_size=k), min_size=4, max_size=6))
    seed = draw(st.integers(0, 2**32 - 1))
    return dict(ty=ty, k=k, kernels=kernels, vecs=vecs, seed=seed)


# ------------------------------------------------------------------------------------------ exhaustive alphabet

def _k(ops, ret=None, dead=(0, 0, 1)):
    return dict(ops=[list(o) for o in ops], ret=(2 + len(ops) - 1) if ret is None else ret, dead=list(dead))


# 8 two-input integer kernels chosen so that pairs collide in every way the merge distinguishes:
# same op / other op, swapped non-commutative operands, reuse of an earlier result, different yield, different depth.
ALPHABET = [
    _k([["addi", 0, 1]]),
    _k([["subi", 0, 1]]),
    _k([["subi", 1, 0]]),
    _k([["muli", 0, 1], ["subi", 2, 0]]),
    _k([["addi", 1, 0], ["subi", 0, 2]]),
    _k([["subi", 0, 1], ["muli", 2, 2], ["addi", 3, 1]]),
    _k([["subi", 1, 0], ["subi", 1, 2], ["maxsi", 2, 3]], ret=4),
    _k([["xori", 0, 0], ["subi", 2, 1], ["subi", 1, 3]], ret=3, dead=(1, 0, 0)),
]


def exhaustive_histories(tier):
    maxlen = 4 if tier == "thorough" else 2
    vecs = [[3, -7], [100, 5], [-128, 127], [2, 2]]
    for n in range(1, maxlen + 1):
        for idx in itertools.product(range(len(ALPHABET)), repeat=n):
            yield dict(ty="i32" if (sum(idx) % 2 == 0) else "i8", k=2, kernels=[ALPHABET[i] for i in idx], vecs=vecs,
                       seed=sum((i + 1) * 9 ** p for p, i in enumerate(idx)))
