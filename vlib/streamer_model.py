"""Streamer address model and schedule element model (DESIGN.md 2.3, C02).

Hardware side: a stride pattern (ub, ts, ss) with the streamer's spatial port sizes denotes, per temporal step, the ordered list of
8-byte words at  base + sum(t_i * ts_i) + sum(s_j * ss_j), temporal dimension 0 innermost, spatial dimension 0 fastest
(docstring of snax_stream.StridePattern and the streamer document it cites).

Schedule side: a dart.schedule with bounds B and per-operand affine patterns assigns to temporal step n (temporal dims = all but the
innermost `template.num_dims` dims, outermost first, last temporal dim fastest) the elements pattern(t, s) for s in the spatial box,
in template order (last spatial dim fastest); spatial dims the template marks irrelevant for the operand are dropped (hardware broadcast).
"""
from __future__ import annotations

import numpy as np

BANK = 8


def hw_word_offsets(ub, ts, ss, spatial_dims):
    """array [steps, ports] of byte offsets (relative to the base pointer) of the 8-byte words the streamer touches."""
    ub = list(ub)
    ts = list(ts)
    nsteps = int(np.prod(ub)) if ub else 1
    # temporal: dim 0 innermost
    if ub:
        idx = np.indices(tuple(reversed(ub))).reshape(len(ub), -1)  # rows: dims in reversed order (outermost first)
        t = np.zeros(nsteps, dtype=np.int64)
        for row, d in zip(idx, reversed(range(len(ub)))):
            t += row.astype(np.int64) * ts[d]
    else:
        t = np.zeros(1, dtype=np.int64)
    sp = list(spatial_dims)[: len(ss)]
    nports = int(np.prod(sp)) if sp else 1
    if sp:
        sidx = np.indices(tuple(reversed(sp))).reshape(len(sp), -1)
        s = np.zeros(nports, dtype=np.int64)
        for row, d in zip(sidx, reversed(range(len(sp)))):
            s += row.astype(np.int64) * ss[d]
    else:
        s = np.zeros(1, dtype=np.int64)
    return t[:, None] + s[None, :]


def hw_bytes(ub, ts, ss, spatial_dims):
    """array [steps, ports*8] of byte offsets in port order, bytes within a word in order."""
    w = hw_word_offsets(ub, ts, ss, spatial_dims)
    return (w[:, :, None] + np.arange(BANK, dtype=np.int64)[None, None, :]).reshape(w.shape[0], w.shape[1] * BANK)


def sched_elem_indices(bounds, A, b, n_spatial, relevant_spatial):
    """array [steps, elems, rank] of operand indices per temporal step in template order.
    A: (rank x ndims) integer matrix, b: offsets; relevant_spatial: list[bool] for the n_spatial innermost dims."""
    A = np.asarray(A, dtype=np.int64)
    b = np.asarray(b, dtype=np.int64)
    n = len(bounds)
    nt = n - n_spatial
    tb = list(bounds[:nt])
    sb = [bounds[nt + j] if relevant_spatial[j] else 1 for j in range(n_spatial)]
    nsteps = int(np.prod(tb)) if tb else 1
    nel = int(np.prod(sb)) if sb else 1
    tidx = np.indices(tuple(tb)).reshape(nt, -1).T if tb else np.zeros((1, 0), dtype=np.int64)  # last temporal dim fastest
    sidx = np.indices(tuple(sb)).reshape(n_spatial, -1).T if sb else np.zeros((1, 0), dtype=np.int64)  # last spatial dim fastest
    full = np.zeros((nsteps, nel, n), dtype=np.int64)
    full[:, :, :nt] = tidx[:, None, :]
    full[:, :, nt:] = sidx[None, :, :]
    return full @ A.T + b


def elem_bytes(elem_addr, elsize):
    """[steps, elems] element addresses (in elements) -> [steps, elems*elsize] byte offsets."""
    a = np.asarray(elem_addr, dtype=np.int64) * elsize
    return (a[:, :, None] + np.arange(elsize, dtype=np.int64)[None, None, :]).reshape(a.shape[0], -1)


def match_steps(hw, exp):
    """Compare a hardware byte stream [hw steps, bytes per hw step] with a scheduled byte stream [schedule steps, bytes per schedule step].
    None if equal step by step; ("fillup", g) if one hardware step is the concatenation of g consecutive schedule steps (the documented spatial
    fill-up of convert_dart_to_snax_stream.py: a spatial schedule bound smaller than the hardware unrolling lets the streamer take over part of the
    next dimension) or - for data identical in all g steps - that data once; else (kind of mismatch, info).
    Same rule as the `match` helper of props/C02.py (sub `streams`); here as a module function for the other subs."""
    if hw.shape == exp.shape:
        if (hw == exp).all():
            return None
        bad = int(np.argwhere((hw != exp).any(axis=1))[0][0])
        same_set = bool((np.sort(hw, axis=1) == np.sort(exp, axis=1)).all())
        return ("byte-order-within-step-differs" if same_set else "bytes-of-step-differ",
                dict(first_bad_step=bad, hw=hw[bad][:32].tolist(), expected=exp[bad][:32].tolist()))
    if hw.shape[0] and exp.shape[0] % hw.shape[0] == 0 and exp.shape[0] > hw.shape[0]:
        g = exp.shape[0] // hw.shape[0]
        grouped = exp.reshape(hw.shape[0], g, exp.shape[1])
        if hw.shape[1] == g * exp.shape[1]:
            flat = grouped.reshape(hw.shape[0], -1)
            if (hw == flat).all():
                return ("fillup", g)
            bad = int(np.argwhere((hw != flat).any(axis=1))[0][0])
            return ("bytes-of-step-differ", dict(first_bad_step=bad, fill_up=g, hw=hw[bad][:32].tolist(), expected=flat[bad][:32].tolist()))
        if hw.shape[1] == exp.shape[1] and (grouped == grouped[:, :1, :]).all() and (hw == grouped[:, 0, :]).all():
            return ("fillup", g)
    if hw.shape[0] != exp.shape[0]:
        return ("number-of-temporal-steps-differs", dict(hw_steps=int(hw.shape[0]), expected_steps=int(exp.shape[0]),
                                                       hw_bytes_per_step=int(hw.shape[1]), expected_bytes_per_step=int(exp.shape[1])))
    return ("bytes-per-step-differ", dict(hw_bytes=int(hw.shape[1]), expected_bytes=int(exp.shape[1])))
