"""Observation layer for C17: trace of tagged side-effecting ops with evaluated operands; symbolic memref descriptors.

A memref value is a `Desc(root, rshape, offs, sizes)`:
  root   ("arg", k) for a function argument, ("alloc", n) for the n-th executed memref.alloc of this run
  rshape dimensions of the root buffer
  offs   element offsets of this view inside the root, per dimension (unit strides only)
  sizes  dimensions of this view (what memref.dim answers)
Events: ("op", tag, operands) for "test.op" {tag}, ("call", name, operands) for calls to body-less functions.
"""
from __future__ import annotations

from collections import namedtuple

from xdsl.dialects.builtin import DYNAMIC_INDEX
from xdsl.ir import BlockArgument
from xdsl.ir.affine import AffineConstantExpr

from .interp import Interp, InterpError
from .machines import Machine

Desc = namedtuple("Desc", "root rshape offs sizes")


def opaque_result(tag, operands):
    ints = [v for v in operands if isinstance(v, int)]
    return (tag * 7 + sum(ints) * 3) % 5 + 1


class LoopMachine(Machine):
    def __init__(self, force_cap=frozenset()):
        self.trace: list = []
        self.nalloc = 0
        self.allocs: list = []
        self.iters: dict = {}
        self.force_cap = force_cap
        self.amin_below_cap = 0

    def on_value(self, ssa, val, env):
        if type(ssa) is BlockArgument and ssa.index == 0:
            p = ssa.block.parent_op()
            if p is not None and p.name == "scf.for":
                self.iters[p] = self.iters.get(p, 0) + 1

    def exec(self, op, operands, env):
        n = op.name
        if n == "test.op":
            tag = op.attributes["tag"].value.data
            self.trace.append(("op", tag, tuple(operands)))
            return [opaque_result(tag, operands) for _ in op.results]
        if n == "memref.alloc":
            shape = []
            dyn = list(operands)
            for d in op.memref.type.get_shape():
                shape.append(dyn.pop(0) if d == DYNAMIC_INDEX or d == -1 else d)
            self.nalloc += 1
            shape = tuple(shape)
            self.allocs.append(shape)
            return [Desc(("alloc", self.nalloc), shape, (0,) * len(shape), shape)]
        if n == "memref.subview":
            src = operands[0]
            no, ns = len(op.offsets), len(op.sizes)
            dyn_o = list(operands[1:1 + no])
            dyn_s = list(operands[1 + no:1 + no + ns])
            if any(s != 1 for s in op.static_strides.get_values()):
                raise InterpError("non-unit subview stride not modelled")
            offs = [dyn_o.pop(0) if v == DYNAMIC_INDEX else v for v in op.static_offsets.get_values()]
            sizes = [dyn_s.pop(0) if v == DYNAMIC_INDEX else v for v in op.static_sizes.get_values()]
            if len(offs) != len(src.offs):
                raise InterpError("rank-changing subview not modelled")
            return [Desc(src.root, src.rshape, tuple(a + b for a, b in zip(src.offs, offs)), tuple(sizes))]
        if n == "memref.dim":
            src, idx = operands
            if not 0 <= idx < len(src.sizes):
                raise InterpError("memref.dim index out of range")
            return [src.sizes[idx]]
        if n == "affine.min":
            mp = op.map.data
            vals = mp.eval(list(operands[:mp.num_dims]), list(operands[mp.num_dims:]))
            v = min(vals)
            t = op.attributes.get("tag")
            if t is not None and t.value.data in self.force_cap and isinstance(mp.results[0], AffineConstantExpr):
                return [mp.results[0].value]
            return [v]
        if n == "affine.apply":
            mp = op.map.data
            return list(mp.eval(list(operands[:mp.num_dims]), list(operands[mp.num_dims:])))
        return NotImplemented

    def call(self, name, args, op, env):
        self.trace.append(("call", name, tuple(args)))
        return [opaque_result(len(name), args) for _ in op.results]


def run(mod, args, force_cap=frozenset(), budget=200000, func="main"):
    """args: ints, or ("mem", k, shape) for memref arguments."""
    m = LoopMachine(force_cap)
    vals = []
    for a in args:
        if isinstance(a, tuple) and a and a[0] == "mem":
            shape = tuple(a[2])
            vals.append(Desc(("arg", a[1]), shape, (0,) * len(shape), shape))
        else:
            vals.append(a)
    Interp(mod, m, step_budget=budget).call(func, vals)
    return m


def _fmt(e):
    return repr(e)[:300]


def same_sequence(t0, t1):
    return len(t0) == len(t1) and all(x[0] == y[0] and x[1] == y[1] and len(x[2]) == len(y[2]) for x, y in zip(t0, t1))


def compare_all(t0, t1, alt=None, alt_explains_index=False, limit=8):
    """All mismatches (up to `limit`, [] = equivalent) between the original trace t0 and the transformed trace t1.

    Same events in the same order. Index operands must be equal. A memref operand must be the same view (offsets, sizes) of a
    root buffer of the same dimensions. Buffer identity: a function argument stays itself; the map original allocation ->
    transformed allocation must be a function (a buffer used by two events stays one buffer), and two original allocations may
    share one transformed allocation only if their use intervals in the original trace are disjoint.
    `alt` is a second reference with the same event sequence as t0 (the original executed with affine.min ops forced to their
    constant bound): a memref dimension may then equal the one in t0 or the one in alt. With alt_explains_index an index operand or
    view offset that equals the alt value is reported under its own kind ('...-is-bound-value').
    """
    out: list = []
    fmap: dict = {}
    first: dict = {}
    last: dict = {}
    if alt is not None and not same_sequence(t0, alt):
        alt = None

    def dims_ok(a, b, c):
        if a == b:
            return True
        return c is not None and len(a) == len(b) == len(c) and all(y == x or y == z for x, y, z in zip(a, b, c))

    for i, (x, y) in enumerate(zip(t0, t1)):
        if len(out) >= limit:
            return out
        if x[0] != y[0] or x[1] != y[1]:
            out.append(dict(kind="event-sequence-differs", index=i, original=_fmt(x[:2]), transformed=_fmt(y[:2]),
                            original_len=len(t0), transformed_len=len(t1)))
            return out
        if len(x[2]) != len(y[2]):
            out.append(dict(kind="operand-count-differs", index=i, original=_fmt(x), transformed=_fmt(y)))
            return out
        for j, (a, b) in enumerate(zip(x[2], y[2])):
            c = alt[i][2][j] if alt is not None else None
            da, db = isinstance(a, Desc), isinstance(b, Desc)
            ctx = dict(index=i, operand=j, original=_fmt(x), transformed=_fmt(y))
            if da != db:
                out.append(dict(kind="operand-kind-differs", **ctx))
                continue
            if not da:
                if a != b:
                    bound = alt_explains_index and c is not None and not isinstance(c, Desc) and b == c
                    out.append(dict(kind="index-operand-is-bound-value" if bound else "index-operand-differs", **ctx))
                continue
            if not isinstance(c, Desc):
                c = None
            if a.offs != b.offs:
                bound = alt_explains_index and c is not None and b.offs == c.offs
                out.append(dict(kind="view-offset-is-bound-value" if bound else "view-offset-differs", **ctx))
            if not dims_ok(a.sizes, b.sizes, c.sizes if c else None):
                out.append(dict(kind="view-size-differs", **ctx))
            if not dims_ok(a.rshape, b.rshape, c.rshape if c else None):
                out.append(dict(kind="buffer-size-differs", **ctx))
            if a.root[0] == "arg" or b.root[0] == "arg":
                if a.root != b.root:
                    out.append(dict(kind="buffer-identity-differs", **ctx))
                continue
            prev = fmap.setdefault(a.root, b.root)
            if prev != b.root:
                out.append(dict(kind="buffer-split-across-uses", note="one original buffer is seen as two different buffers by its uses", **ctx))
            first.setdefault(a.root, i)
            last[a.root] = i
    if len(t0) != len(t1):
        extra = (t0 if len(t0) > len(t1) else t1)[min(len(t0), len(t1))]
        out.append(dict(kind="event-count-differs", original_len=len(t0), transformed_len=len(t1), first_unmatched=_fmt(extra)))
        return out
    groups: dict = {}
    for r0, r1 in fmap.items():
        groups.setdefault(r1, []).append(r0)
    for r1, rs in groups.items():
        if len(rs) < 2:
            continue
        rs.sort(key=lambda r: first[r])
        for p, q in zip(rs, rs[1:]):
            if last[p] >= first[q]:
                out.append(dict(kind="buffer-shared-while-both-live", transformed_buffer=repr(r1), original_buffers=[repr(p), repr(q)],
                                first_use_of_second=first[q], last_use_of_first=last[p]))
                break
    return out[:limit]
